#!/opt/veriftools/pyvenv/bin/python
import json, jsonschema, sys, glob
m=json.load(open('/verif/MANIFEST.json')); jsonschema.validate(m, json.load(open('/root/.vp/MANIFEST.schema.json')))
es=json.load(open('/root/.vp/EVIDENCE.schema.json'))
for f in sorted(glob.glob('/verif/evidence/*.json')):
    e=json.load(open(f)); jsonschema.validate(e, es); print(f, "ok", e["coverage"]["evaluations"], e["coverage"]["distinct_nontrivial"], e["coverage"].get("verdict"))
print("manifest ok")
