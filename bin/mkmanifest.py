#!/usr/bin/env python3
"""Regenerates /verif/MANIFEST.json from the table below (kept in one place so
that the manifest is always valid and in step with what is built)."""
import json, os, sys

ROOT = os.path.dirname(os.path.dirname(os.path.abspath(__file__)))

# id -> (category, technique, level text, level note, design ref)
CHECKS = {
 "C01": ("exploration", "encode/decode round-trip monitor with reference-encoder tie, four message sources",
         "Complete messages built by constructors, by completing templates, by the SML parser and by the decoder itself are encoded, decoded and compared field by field and byte by byte; the encoding is also tied to the intended message by the reference encoder. All stream/function pairs and every format at every length-byte boundary are covered on every run.",
         "Judges item identity through the printed form and the bytes; trusts the reference encoder; sizes above ~2 MiB only in C13.",
         "DESIGN.md §5 C01"),
 "C02": ("exploration", "reference-encoder monitor over exhaustive small formats, F4 bit-pattern sweep and generated trees",
         "Every ToBytes() call on generated/enumerated items and messages is compared byte-for-byte with an independent reference encoder; 1- and 2-byte formats and (thorough) all 2^32 F4 patterns are enumerated completely, wider formats by boundary+random values.",
         "Trusts the reference encoder in harness/internal/ref (self-tested against the repository's literal vectors on every run); says nothing about items outside the generated shapes/sizes.",
         "DESIGN.md §5 C02"),
 "C03": ("fault_enumeration", "strict reference-decoder monitor; single-point fault enumeration of seed encodings; inputs presented with exact capacity and with stale buffer data behind the slice",
         "Every truncation point, appended byte, structural byte value (all 255 alternatives) and payload byte fault of each seed encoding (<=160 bytes) is decoded by the real decoder and by a strict reference decoder; accept/reject and the decoded value must agree. Valid encodings with every non-minimal length form and unstructured bytes are added.",
         "Trusts the reference decoder (internal/ref/decode.go); faults are single-point (plus targeted multi-byte ones), seeds are small generated messages.",
         "DESIGN.md §5 C03"),
 "C07": ("fault_enumeration", "child-process isolation (ulimit -v, watchdog, progress file) + per-call runtime.MemStats.TotalAlloc monitor + hook-H3/H4 logical step budgets + per-worker history monitors (retained heap over the batch, long runs in one process, concurrent batches)",
         "Every (format, length-byte count, declared length, bytes present, nesting depth) mismatch combination, all single-point faults of seed encodings, long legitimate items, list chains and random bytes are decoded in worker processes; an escaped panic, a worker abort (OOM, stack overflow) an allocation above 1 MiB + 2048*len, more item steps than input bytes (hook H3) or more list walks than 100000 + 2*len^2 (hook H4) is a violation. The same bound is applied to histories: seven messages repeated thousands of times and 150000 pairwise different tiny messages in one worker, a hostile tail behind a legitimate prefix, short reads of whole frames, frames decoded at the same moment by eight goroutines; the live heap after two collections is compared before and after each batch.",
         "The allocation bound's constants are chosen with ~4x headroom over the costliest legitimate construct measured; time is judged only through the logical step counters of hooks H3/H4; inputs above 16 MiB are not generated.",
         "DESIGN.md §5 C07"),
 "C13": ("exploration", "hook-H1 sweep of the header routine (exhaustive over all sizes in the thorough tier) + real items at every length-byte boundary and at the limit, decoded back",
         "The header routine is called for every (format, size) through a verif-tagged export and compared with the arithmetic statement of the header (thorough: all 1.36e8 points, exhaustive; quick: every 257th size plus all sizes within 300 bytes of each boundary); real items of all 14 formats are built at the 255|256, 65535|65536 and 16777215|+1 boundaries, encoded, and decoded back.",
         "Real items use one shared element value per format; the exhaustive part covers the header routine, not each factory's own limit check (those are exercised at the boundaries only).",
         "DESIGN.md §5 C13"),
 "C12": ("exploration", "domain-table monitor (math/big) over every factory x Go argument type x boundary value, direct and through FillVariables",
         "Every numeric factory is called with every accepted Go integer/float type at and beyond every range boundary (node range and Go type range), binary literals, strings over all of Unicode, ~3000 variable-name candidates in 8 positions, structural rules and message header constraints; the call must refuse, or the value read back from ToBytes()/String() must be the mathematical argument.",
         "A panic of any kind counts as refusal; boundary tables plus random values, not the whole of each 64-bit type.",
         "DESIGN.md §5 C12"),
 "C14": ("exploration", "table oracle over exhaustively enumerated header values; every constructed message decoded back",
         "All 65536 (PType,SType) pairs, all 65536 session ids per request constructor, all status/reason codes, all 65536 (pType,sType) pairs of reject.req for reason 2 and for another reason, every request-kind x response-constructor pair: bytes, Type() and hsms.Parse of the bytes are compared with the layout table of the property.",
         "System bytes and the unconstrained header bytes are boundary + random values; NewHSMSControlMessage with more than ten bytes is outside the stated domain.",
         "DESIGN.md §5 C14"),
 "C09": ("exploration", "differential monitor: FillVariables vs direct construction by the real factories vs model substitution; set-partition enumeration for composition",
         "For generated ellipsis-free templates and assignments (total, partial, empty, unknown keys, 11 kinds of out-of-domain values) the filled item must equal the directly constructed one in String/Variables/Size/ToBytes, equal the model substitution, refuse exactly when the factory refuses, and give the same result for every set partition of up to 4 keys (random ordered splits beyond) and at message level.",
         "Fill-in values are variable-free as the property quantifies; direct construction uses the repository's own factories (their correctness is C12's subject).",
         "DESIGN.md §5 C09"),
 "C10": ("exploration", "reference-expander monitor, exhaustive over all small templates x all count maps, random beyond",
         "Every list template up to a node/level bound over a 5-letter item alphabet with an ellipsis at every legal position, times every count map over {unfilled,0,1,2,3}, times two-step splits, is expanded by the real code and by an independent reference expander; printed form, sizes, variable names (ellipses by position), naming of the remaining ellipses and individual fills of generated names are compared. Random deeper templates with counts up to 12 are added.",
         "Trusts the reference expander (checked against the documented example each run); counts >= 0; bracket-free base names.",
         "DESIGN.md §5 C10"),
 "C16": ("exploration", "three-observer agreement monitor with an independent scanner of the printed form",
         "For generated items, expansion results, messages and parser-produced messages: Variables() must equal the variable tokens read from String() by the harness's own scanner, hold no name twice, ToBytes() must be non-empty iff there are no variables (messages: and wait bit/session decided), Size() must equal the printed element count, and every printed [n] must equal the elements inside.",
         "Variable base names avoid T and F; the scanner of the printed form is part of the trusted base.",
         "DESIGN.md §5 C16"),
 "C18": ("exploration", "frame-condition monitor against a field-wise model, all producer sequences up to length 3",
         "Messages in every completeness state are put through all 39 sequences of up to three producers with accepted and rejected arguments; after each call every observable field is compared with a model that changes only the named field, the receiver is re-read, and refusal must coincide with the validity rules.",
         "Trusts the producer model written from the property statement.",
         "DESIGN.md §5 C18"),
 "C11": ("exploration", "snapshot monitor over random API histories with scribbling of every argument and returned slice/map",
         "Random 200-step histories over a pool of up to 64 shared items, data messages and control messages; after every step the harness overwrites every slice/map it passed in or got back and re-reads every pooled object through all public observers; any difference from the snapshot taken at creation is a violation.",
         "State = what the public observers return; histories are random, not exhaustive.",
         "DESIGN.md §5 C11"),
 "C04": ("exploration", "round-trip monitor print->parse->compare (both directions), documented print form as reference, completion with a common assignment",
         "Messages over all stream/function pairs, wait-bit states, directions, recognised names and generated trees (variables, bounded ASCII variables, nested ellipses, every character 0..127) are printed, the print compared with the documented form, parsed (one message, no error, no warning), compared field by field and by bytes after completing both sides alike; accepted texts in varied literal forms/layouts are checked to be fixed points of parse-print-parse.",
         "Names come from a recogniser of what the header lexer reads as one name; variable names avoid SML keywords; ellipsis names are compared by position.",
         "DESIGN.md §5 C04"),
 "C05": ("exploration", "value-to-text generator with a priori expected values; three-class oracle (valid / invalid / unspecified)",
         "Texts are generated from values in every documented literal form, layout and letter case; valid texts must parse to exactly the generating model (printed form, encoded bytes, variables), texts with one unrepresentable literal (each boundary +-1, 1e20, 1e400, fractions, wrong token kinds, malformed numbers, non-ASCII) in every position of arrays of length 0..8 must give an error and no message; undocumented forms may be rejected or read plausibly, never as a third value.",
         "Expected values come from the generator (value -> text), never from parsing; which forms are 'documented' is stated in DESIGN.md.",
         "DESIGN.md §5 C05"),
 "C08": ("exploration", "metamorphic layout monitor: one token sequence rendered twice, diagnostics matched through the renderer's token position table",
         "Valid messages, single-mutation variants and token soups are rendered in two layouts (all blank kinds, CRLF, comments with 45 bodies covering every kind of final byte, with/without final line break) or two letter-case spellings; messages must be identical, diagnostics equal in number and text, and every diagnostic position must be the position of the same token in the other rendering.",
         "Admissibility (which gaps are optional, when a comment may contain a quote, which tokens may change lexer state) is decided by the harness's own rules stated in c08.go/smltext.go.",
         "DESIGN.md §5 C08"),
 "C15": ("exploration", "exhaustive small-number enumeration of (form, type, lower, upper, count) with position-checked diagnostics",
         "All four declaration forms x 14 item types x (lower, upper, count) in [0..6]^3 plus huge/overflowing and inverted bounds: accepted iff the count is within the bounds, else an error at the declaration token and no message; ASCII-variable bounds are printed back, survive re-parsing and are enforced on fills at lo-1, lo, hi, hi+1, 0, 1000.",
         "Exhaustive only for bounds up to 6; larger bounds by a table of boundary values.",
         "DESIGN.md §5 C15"),
 "C19": ("exploration", "metamorphic concatenation monitor against the individual parses",
         "Sequences of 2-4 accepted texts with every separator allowed after a terminator: the concatenation must be accepted, return the concatenation of the individual results (all observers, variable names verbatim) and the individual warnings shifted by each part's start position; variable names and ellipses are deliberately reused across parts.",
         "Parts never end in an unterminated comment.",
         "DESIGN.md §5 C19"),
 "C06": ("exploration", "child-process isolation (ulimit -v, watchdog, progress file) + in-worker assertions on every returned triple + hook-H2/H4 logical step budgets + diagnostic-shape coverage signal + per-worker history monitors (earlier result re-read, retained heap over the batch, concurrent batches)",
         "Systematic hostile inputs (duplicate variables under absurd sizes, every Unicode white-space code point in 12 positions, 150 hostile fragments in 12 structural positions, deep nesting), token soups, valid tagged sequences, mutations of valid texts and random bytes are parsed in worker processes; an escaped panic, a worker abort, a step count above a linear budget, messages returned together with errors, a valid sequence returned incomplete or out of order, or a malformed/out-of-input diagnostic position is a violation; inputs producing a new diagnostic shape seed two further mutation rounds. Per worker process: the previous successful result is read again after the next call, the live heap after two collections is compared before and after the batch, one worker parses hundreds of sizeable inputs with fresh names in a row, and batches of eight texts are parsed at the same moment by eight goroutines and compared with the same calls made alone.",
         "Non-termination is decided on the hooked logical steps (loops that call none of the hooked functions only trip the wall-clock watchdog, which is reported as inconclusive); inputs above 1 MiB only for the nesting probe; time complexity is not judged.",
         "DESIGN.md §5 C06"),
 "C17": ("exploration", "Go race detector (-race build) over a multi-goroutine driver with a detector canary, plus per-call comparison with sequential results",
         "32-64 goroutines hammer a few hot shared objects per round with every observer and producer, both parsers run concurrently on shared inputs (a 600-deep nest decoded by all goroutines at once, long-running decodes and parses, 13 calls and 7 texts that must be refused alone and in company); the race log is scanned for reports with a library frame, a deliberately racy canary must be reported (else inconclusive), every concurrent result must equal the sequential one; evidence reports how many calls overlapped on the same object.",
         "Judges the schedules that happened (about 1.5e5 overlapping calls per quick run), not all interleavings.",
         "DESIGN.md §5 C17"),
}

NOT_YET = {}

def main():
    props = [json.loads(l) for l in open(os.path.join(ROOT, "properties.jsonl"))]
    checks = []
    na = []
    for p in props:
        pid = p["id"]
        if pid in CHECKS:
            cat, tech, text, note, ref = CHECKS[pid]
            checks.append({
                "property_id": pid,
                "quick_cmd": "bin/check %s quick" % pid,
                "thorough_cmd": "bin/check %s thorough" % pid,
                "evidence_file": "/verif/evidence/%s.json" % pid,
                "replay_cmd_template": "bin/check %s --replay {path}" % pid,
                "engine": "vcheck",
                "level_claimed": {"category": cat, "text": text, "design_ref": ref},
                "level_note": note,
                "technique": tech,
            })
        else:
            na.append({"property_id": pid, "reason": NOT_YET.get(pid, "monitor not built yet (work in progress); no claim is made for this property at this commit")})
    hooks_commits = []
    hf = os.path.join(ROOT, "MANIFEST.hooks")
    if os.path.exists(hf):
        for l in open(hf):
            l = l.strip()
            if l and not l.startswith("#"):
                hooks_commits.append(l.split()[0])
    m = {
        "version": 1,
        "setup_cmd": "bin/setup",
        "hooks": {
            "guard": "verif",
            "enable": "go build -tags verif (bin/check builds harness/cmd/vcheck against /repo through a replace directive)",
            "baseline_off_cmd": "cd /repo && go test -vet=off -count=1 ./...",
            "source_commits": hooks_commits,
            "add_only": True,
        },
        "engines": [{"name": "vcheck", "path": "harness/cmd/vcheck", "serves_properties": sorted(CHECKS),
                     "kind_free_text": "Go runtime-monitoring harness: drives the real library built from /repo's working tree under generated/enumerated/hostile/concurrent workloads; oracles are an independent reference model, metamorphic relations, child-process isolation with rlimits, and the Go race detector"}],
        "checks": checks,
        "not_applicable": na,
        "notes": "All checks: exit 0 held / exit 1 with a VIOLATION line / exit 2 inconclusive. VERIF_SEED selects the case list; VERIF_REPO (default /repo) selects the tree. Known findings: /verif/known_findings.json.",
    }
    json.dump(m, open(os.path.join(ROOT, "MANIFEST.json"), "w"), indent=1)
    print("MANIFEST.json: %d checks, %d not_applicable" % (len(checks), len(na)))

if __name__ == "__main__":
    main()
