# sourced by every script in /verif/bin
export GOFLAGS=-mod=mod GOPROXY=off GOSUMDB=off GOTOOLCHAIN=local CGO_ENABLED=1
export VERIF_ROOT="$(cd "$(dirname "${BASH_SOURCE[0]}")/.." && pwd)"
export VERIF_REPO="${VERIF_REPO:-/repo}"
export VERIF_SEED="${VERIF_SEED:-1}"
MODPATH=github.com/wolimst/lib-secs2-hsms-go

# vbuild <out> [extra go build flags...]: (re)generate go.mod against $VERIF_REPO and build vcheck
vbuild() {
  local out="$1"; shift
  local h="$VERIF_ROOT/harness"
  # a per-repo module file so that concurrent runs against different trees do not step on each other
  local tag; tag="$(printf '%s' "$VERIF_REPO" | cksum | cut -d' ' -f1)"
  local mf="$VERIF_ROOT/work/gomod/$tag.mod"
  mkdir -p "$VERIF_ROOT/work/gomod" "$VERIF_ROOT/work/bin"
  cat >"$mf.tmp.$$" <<EOF
module verifharness

go 1.16

require $MODPATH v0.0.0

replace $MODPATH => $VERIF_REPO
EOF
  mv "$mf.tmp.$$" "$mf"
  cp "$VERIF_REPO/go.sum" "${mf%.mod}.sum"
  (cd "$h" && go build -modfile="$mf" -tags verif "$@" -o "$out" ./cmd/vcheck)
}
