#!/usr/bin/env python3
"""Rewrites the table of seeded changes in DESIGN.md §9.4 from seeded/*/meta.json."""
import json, glob, os, re
ROOT = os.path.dirname(os.path.dirname(os.path.abspath(__file__)))
p = os.path.join(ROOT, 'DESIGN.md')
s = open(p).read()
rows = []
n = {r: 0 for r in range(1, 12)}; missed = {r: 0 for r in range(1, 12)}
for f in sorted(glob.glob(os.path.join(ROOT, 'seeded/*/meta.json'))):
    m = json.load(open(f))
    rnd = m.get('round', 1)
    n[rnd] += 1
    st = m['strengthening']
    first = st.startswith('none')
    if not first: missed[rnd] += 1
    rows.append("| `%s` | %s | %s | %s |" % (m['id'], m['needs_to_manifest'], m['caught_by'], "-" if first else st))
head = "| seeded change | needs, to manifest | caught by (quick tier) | strengthening it caused |\n|---|---|---|---|\n"
i = s.index("| seeded change |")
j = s.index("\n\n", i)
s = s[:i] + head + "\n".join(rows) + s[j:]
open(p, 'w').write(s)
print("rounds:", n, "needed strengthening:", missed)
