package main

import (
	"fmt"
	"os"
	"time"

	"verifharness/internal/iso"
)

// runCanaries exercises the isolation layer itself: a worker that exhausts its address space must be classified
// as an out-of-memory abort, a worker that never returns must trip the watchdog. Used by `vcheck -prop canaries`.
func runCanaries() int {
	exe, _ := os.Executable()
	dir, _ := os.MkdirTemp("", "vcanary")
	defer os.RemoveAll(dir)
	bad := 0
	o := iso.Run(iso.Options{Exe: exe, Kind: "canary-oom", Dir: dir + "/oom", VMemKB: 2 << 20, Watchdog: 2 * time.Minute, MaxRestart: 0}, []iso.Job{{Input: []byte("x"), Family: "canary"}})
	if len(o.Aborts) == 1 && o.Aborts[0].Kind == "oom" && o.Aborts[0].Index == 0 {
		fmt.Println("canary-oom: reported as abort/oom on input 0 (ok)")
	} else {
		fmt.Printf("canary-oom: NOT reported as expected: %+v\n", o)
		bad++
	}
	o = iso.Run(iso.Options{Exe: exe, Kind: "canary-spin", Dir: dir + "/spin", VMemKB: 2 << 20, Watchdog: 3 * time.Second, MaxRestart: 0}, []iso.Job{{Input: []byte("x"), Family: "canary"}})
	if len(o.Aborts) == 1 && o.Aborts[0].Kind == "watchdog" {
		fmt.Println("canary-spin: reported as watchdog (ok)")
	} else {
		fmt.Printf("canary-spin: NOT reported as expected: %+v\n", o)
		bad++
	}
	return bad
}
