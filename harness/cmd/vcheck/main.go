// vcheck runs the runtime monitor of one property against the repository
// tree it was built with.
package main

import (
	"encoding/json"
	"flag"
	"fmt"
	"os"
	"runtime"
	"runtime/debug"
	"runtime/pprof"
	"sync"

	"verifharness/internal/mon"
	"verifharness/internal/real"
	"verifharness/internal/rng"
)

type checkFn func(c *ctx)

type ctx struct {
	*mon.Run
	thorough bool
	rnd      *rng.R
}

// pick returns q in the quick tier and t in the thorough tier.
func (c *ctx) pick(q, t int) int {
	if c.thorough {
		return t
	}
	return q
}

type propDef struct {
	level  string
	run    checkFn
	replay func(c *ctx, raw json.RawMessage)
}

var props = map[string]propDef{}

func register(id, level string, run checkFn, replay func(c *ctx, raw json.RawMessage)) {
	props[id] = propDef{level, run, replay}
}

// parallel runs fn(i, rnd_i) for i in [0,n) on all cores; every index gets its
// own PRNG stream derived from (seed, i) so that the case list does not depend
// on scheduling.
func (c *ctx) parallel(n int, fn func(i int, r *rng.R)) {
	workers := runtime.NumCPU()
	if workers > n {
		workers = n
	}
	if workers < 1 {
		workers = 1
	}
	base := c.rnd.U64()
	var wg sync.WaitGroup
	next := make(chan int, 256)
	for w := 0; w < workers; w++ {
		wg.Add(1)
		go func() {
			defer wg.Done()
			for i := range next {
				func() {
					// a panic of the harness itself while it evaluates a case (typically: the library handed it something a
					// correct library never hands out) ends that case, not the run; alone it makes the run inconclusive
					defer func() {
						if r := recover(); r != nil {
							c.Inconclusive(fmt.Sprintf("the harness panicked while evaluating case %d: %v", i, r))
						}
					}()
					fn(i, rng.New(rng.Mix(base, uint64(i))))
				}()
			}
		}()
	}
	for i := 0; i < n; i++ {
		next <- i
	}
	// long runs: the first cases and a sample of the others are evaluated once more after everything else (a case is a
	// pure function of its index, so this is the same call made late in the life of the process - whatever the library
	// remembers between calls has seen thousands of other inputs by now)
	if n >= 512 {
		for i := 0; i < 64; i++ {
			next <- i
		}
		for i := 64; i < n; i += n / 64 {
			next <- i
		}
		c.Class("late-revisits-of-early-cases")
	}
	close(next)
	wg.Wait()
}

func main() {
	prop := flag.String("prop", "", "property id")
	tier := flag.String("tier", "quick", "quick|thorough")
	seed := flag.Int64("seed", 1, "seed")
	replay := flag.String("replay", "", "replay file")
	worker := flag.String("worker", "", "internal: worker mode (sml|hsms)")
	flag.Parse()

	// plenty of memory, allocation-heavy code under test: trade heap for GC time
	// (not in worker mode, where allocation is what is being measured against a limit)
	if *worker == "" {
		debug.SetGCPercent(400)
	}
	if *worker != "" {
		workerMain(*worker, flag.Args())
		return
	}
	if *prop == "C14" && os.Getenv("VERIF_C14_FIRST") != "" {
		c14FirstChild() // before anything else touches the library
		return
	}
	if *prop == "canaries" {
		os.Exit(runCanaries())
	}
	def, ok := props[*prop]
	if !ok {
		fmt.Println("unknown property", *prop)
		os.Exit(2)
	}
	if err := refSelfTest(); err != nil {
		fmt.Printf("INCONCLUSIVE property=%s reason=reference-self-test-failed: %v\n", *prop, err)
		os.Exit(2)
	}
	run := mon.NewRun(*prop, *tier, *seed, def.level)
	c := &ctx{Run: run, thorough: *tier == "thorough", rnd: rng.New(uint64(*seed)*1000003 + rng.HashStr(*prop))}
	if *replay != "" {
		b, err := os.ReadFile(*replay)
		if err != nil {
			fmt.Println("cannot read replay:", err)
			os.Exit(2)
		}
		var body struct {
			Case json.RawMessage `json:"case"`
		}
		if err := json.Unmarshal(b, &body); err != nil || def.replay == nil {
			fmt.Println("cannot replay:", err)
			os.Exit(2)
		}
		run.Out = os.TempDir() // do not overwrite evidence / replays of real runs
		os.MkdirAll(run.Out+"/evidence", 0o755)
		def.replay(c, body.Case)
		if run.Violations() > 0 {
			os.Exit(1)
		}
		fmt.Println("replay: no violation reproduced")
		os.Exit(0)
	}
	if pf := os.Getenv("VERIF_CPUPROFILE"); pf != "" {
		f, _ := os.Create(pf)
		pprof.StartCPUProfile(f)
		defer pprof.StopCPUProfile()
	}
	if *prop == "C17" && os.Getenv("VERIF_C17_CHILD") == "" {
		// the concurrent driver runs in a child process: a Go runtime fatal error (e.g. "concurrent map read and
		// map write") kills the process that hits it, and that is an observation, not a harness failure
		os.Exit(c17Parent(c))
	}
	real.OnAnomaly = func(what string) {
		c.Violation(*prop+"/snapshot-anomaly", what, map[string]string{"note": "noticed by real.Snap / real.SnapItem while reading an object; see the violation text"})
	}
	func() {
		defer func() {
			if r := recover(); r != nil {
				c.Inconclusive(fmt.Sprintf("the harness panicked: %v", r))
			}
		}()
		def.run(c)
	}()
	code := run.Finish()
	pprof.StopCPUProfile()
	os.Exit(code)
}
