package main

import (
	"bytes"
	"encoding/json"
	"fmt"
	"io"
	"os"
	"os/exec"
	"path/filepath"
	"runtime"
	"sort"
	"strings"
	"sync"
	"syscall"
	"time"

	"verifharness/internal/gen"
	"verifharness/internal/real"
	"verifharness/internal/ref"
	"verifharness/internal/rng"

	"github.com/wolimst/lib-secs2-hsms-go/pkg/ast"
	"github.com/wolimst/lib-secs2-hsms-go/pkg/parser/hsms"
	"github.com/wolimst/lib-secs2-hsms-go/pkg/parser/sml"
)

// C17 — shared items, messages and parsers are safe for concurrent use.
// Oracle: the Go race detector (this binary is built with -race; GORACE sends
// reports to work/C17/race.*) + per-call equality with the sequential result.

type c17Case struct {
	Seed  uint64 `json:"seed"`
	Round int    `json:"round"`
	Note  string `json:"note"`
}

func init() { register("C17", "exploration", runC17, replayC17) }

type sharedObj struct {
	kind     string
	special  string // non-empty for the hand-made objects every round keeps hot
	item     ast.ItemNode
	data     *ast.DataMessage
	ctl      ast.HSMSMessage
	buf      []byte // encoded message, shared read-only input of hsms.Parse
	text     string // SML text
	fill     map[string]interface{}
	counts   map[string]interface{}
	twin     *sharedObj // an independently constructed equal object; only it is used for the sequential reference results
	mu       sync.Mutex
	got      map[string]string // first result seen per operation during the concurrent phase
	inflight int32
}

var c17Ops = map[string][]string{
	"item":    {"String", "ToBytes", "Variables", "Size", "Fill/shared-map", "Fill/private-map", "Expand", "WrapInLists"},
	"data":    {"String", "ToBytes", "Variables", "Header", "SystemBytes", "Fill/shared-map", "SetWaitBit", "SetSession", "Accessors"},
	"control": {"Type", "ToBytes", "Response"},
	"bytes":   {"hsms.Parse"},
	"text":    {"sml.Parse"},
	// calls that must be refused, alone and in company (a process-wide switch flipped by another call would let them through)
	"refused": {"dup-list-var-vs-child", "dup-in-children", "two-ellipses", "ellipsis-first", "u1-range", "i1-range", "ascii-8bit", "stream-range", "w-on-reply", "f4-inf", "rename-collision", "fill-range", "fill-dup", "ascii-over-limit", "i8-over-limit"},
}

// arguments just beyond the item size limit, built once and only read afterwards
var overLimitString = strings.Repeat("z", ref.MaxBytes+1)
var overLimitInts = func() []interface{} {
	v := make([]interface{}, ref.MaxBytes/8+1)
	for i := range v {
		v[i] = i
	}
	return v
}()

func msgSummary(m *ast.DataMessage) string {
	s := real.Snap(m)
	b, _ := json.Marshal(s)
	return string(b)
}

// doOp performs one operation and renders its result as a string.
func doOp(o *sharedObj, op string, tag string) (res string) {
	defer func() {
		if r := recover(); r != nil {
			res = "panic: " + fmt.Sprint(r)
		}
	}()
	switch o.kind {
	case "item":
		switch op {
		case "String":
			return real.Str(o.item)
		case "ToBytes":
			return string(o.item.ToBytes())
		case "Variables":
			return strings.Join(o.item.Variables(), ",")
		case "Size":
			return fmt.Sprint(o.item.Size())
		case "Fill/shared-map":
			return real.Str(o.item.FillVariables(o.fill))
		case "Fill/private-map":
			m := map[string]interface{}{}
			for k, v := range o.fill {
				m[k] = v
			}
			n := o.item.FillVariables(m)
			return real.Str(n) + "|" + string(n.ToBytes())
		case "Expand":
			n := o.item.FillVariables(o.counts)
			return real.Str(n) + "|" + strings.Join(n.Variables(), ",")
		case "WrapInLists":
			// the shared item becomes the first element of new lists built by the caller (user-built sharing of sub-items)
			// tag: a name prefix unique to this call, made from goroutine-local counters (no shared counter: any
			// atomic here would order the goroutines and hide races)
			p1 := ast.NewListNode(o.item, tag+"a", ast.NewUintNode(1, tag+"b"))
			p2 := ast.NewListNode(ast.NewListNode(o.item), tag+"c")
			out := strings.Join(p1.Variables(), ",") + "|" + strings.Join(p2.Variables(), ",") + "|" + real.Str(p1)
			return strings.ReplaceAll(out, tag, "#")
		}
	case "data":
		switch op {
		case "String":
			return o.data.String()
		case "ToBytes":
			return string(o.data.ToBytes())
		case "Variables":
			return strings.Join(o.data.Variables(), ",")
		case "Header":
			return o.data.Header()
		case "SystemBytes":
			return fmt.Sprintf("%x", o.data.SystemBytes())
		case "Fill/shared-map":
			return msgSummary(o.data.FillVariables(o.fill))
		case "SetWaitBit":
			return msgSummary(o.data.SetWaitBit(false))
		case "SetSession":
			return msgSummary(o.data.SetSessionIDAndSystemBytes(4242, []byte{9, 9, 9, 9}))
		case "Accessors":
			return fmt.Sprint(o.data.Name(), o.data.StreamCode(), o.data.FunctionCode(), o.data.WaitBit(), o.data.Direction(), o.data.SessionID(), o.data.Type())
		}
	case "control":
		switch op {
		case "Type":
			return o.ctl.Type()
		case "ToBytes":
			return string(o.ctl.ToBytes())
		case "Response":
			switch o.ctl.Type() {
			case "select.req":
				return string(ast.NewHSMSMessageSelectRsp(o.ctl, 1).ToBytes())
			case "deselect.req":
				return string(ast.NewHSMSMessageDeselectRsp(o.ctl, 2).ToBytes())
			case "linktest.req":
				return string(ast.NewHSMSMessageLinktestRsp(o.ctl).ToBytes())
			}
			return o.ctl.Type()
		}
	case "bytes":
		m, ok := hsms.Parse(o.buf)
		if !ok {
			return "not ok"
		}
		if o.special == "deep-bytes" {
			// printing a deep nest costs gigabytes of copying: compare the re-encoding only
			return fmt.Sprintf("ok %s %x", m.Type(), rng.HashStr(string(m.ToBytes())))
		}
		if dm, isData := m.(*ast.DataMessage); isData {
			return msgSummary(dm)
		}
		return m.Type() + string(m.ToBytes())
	case "refused":
		switch op {
		case "dup-list-var-vs-child":
			return real.Str(ast.NewListNode("x", ast.NewUintNode(1, "x")))
		case "dup-in-children":
			return real.Str(ast.NewListNode(ast.NewUintNode(1, "y"), ast.NewListNode(ast.NewIntNode(2, "y"))))
		case "two-ellipses":
			return real.Str(ast.NewListNode(ast.NewUintNode(1, 1), "...", ast.NewUintNode(1, 2), "..."))
		case "ellipsis-first":
			return real.Str(ast.NewListNode("...", ast.NewUintNode(1, 1)))
		case "u1-range":
			return real.Str(ast.NewUintNode(1, 256))
		case "i1-range":
			return real.Str(ast.NewIntNode(1, -129))
		case "ascii-8bit":
			return real.Str(ast.NewASCIINode("caf\u00e9"))
		case "stream-range":
			return ast.NewDataMessage("n", 128, 1, 1, "H->E", ast.NewEmptyItemNode()).String()
		case "w-on-reply":
			return ast.NewDataMessage("n", 1, 2, 1, "H->E", ast.NewEmptyItemNode()).String()
		case "f4-inf":
			return real.Str(ast.NewFloatNode(4, 1e39))
		case "rename-collision":
			return real.Str(o.item.FillVariables(map[string]interface{}{"item": ast.NewUintNode(1, "b")}))
		case "fill-range":
			return real.Str(o.item.FillVariables(map[string]interface{}{"b": 300}))
		case "fill-dup":
			return real.Str(o.item.FillVariables(map[string]interface{}{"item": "b"}))
		case "ascii-over-limit":
			return fmt.Sprint(ast.NewASCIINode(overLimitString).Size())
		case "i8-over-limit":
			return fmt.Sprint(ast.NewIntNode(8, overLimitInts...).Size())
		}
	case "text":
		msgs, errs, warns := sml.Parse(o.text)
		var sb strings.Builder
		for _, m := range msgs {
			sb.WriteString(msgSummary(m))
		}
		res := sb.String() + fmt.Sprint(errs, warns)
		// what Parse returned is this caller's: it may replace and clear entries as it likes
		for i := range msgs {
			msgs[i] = nil
		}
		for i := range errs {
			errs[i] = "cleared by the caller"
		}
		for i := range warns {
			warns[i] = "cleared by the caller"
		}
		return res
	}
	return "?"
}

// buildOne constructs the objects of one pool slot from a PRNG stream; called twice with equal streams it
// gives two independent but equal objects (the shared one and its twin).
func buildOne(r *rng.R, slot int) *sharedObj {
	g := gen.New(r, gen.Profile{MaxDepth: 1 + r.Intn(3), Vars: true, Ellipsis: r.Bool(), PlainNames: true, Budget: 120, MaxKids: 3, MaxElems: 4})
	it := g.Tree()
	var node ast.ItemNode
	if o := real.Try(func() { node = real.Build(it) }); o.Panicked {
		return nil
	}
	counts := map[string]interface{}{}
	for _, v := range it.Vars() {
		if ref.IsEllipsisName(v) {
			counts[v] = r.Intn(3)
		}
	}
	fill := map[string]interface{}{}
	full := fullAssignment(g, it)
	var keys []string
	for k := range full {
		keys = append(keys, k)
	}
	sort.Strings(keys)
	for _, k := range keys {
		if r.Chance(2, 3) {
			fill[k] = rawOf(full[k])
		}
	}
	switch slot {
	case 12:
		// a message nested 600 lists deep (all goroutines decode it at the same moment: per-call bookkeeping of the
		// decoder must not add up across calls)
		it := &ref.Item{Kind: ref.U1, Slots: []ref.Slot{{Uint: 7}}}
		for i := 0; i < 600; i++ {
			it = &ref.Item{Kind: ref.L, Children: []*ref.Item{it}}
		}
		return &sharedObj{special: "deep-bytes", kind: "bytes", buf: ref.EncodeMessage(&ref.Msg{Stream: 1, Function: 1, W: 1, Session: 5, Sys: [4]byte{1, 2, 3, 4}, Item: it})}
	case 13:
		// a long-running decode: 3600 small items in nested lists
		wide := &ref.Item{Kind: ref.L}
		for i := 0; i < 60; i++ {
			row := &ref.Item{Kind: ref.L}
			for j := 0; j < 60; j++ {
				row.Children = append(row.Children, &ref.Item{Kind: ref.U2, Slots: []ref.Slot{{Uint: uint64(i*60 + j)}}})
			}
			wide.Children = append(wide.Children, row)
		}
		return &sharedObj{special: "long-bytes", kind: "bytes", buf: ref.EncodeMessage(&ref.Msg{Stream: 6, Function: 11, W: 1, Session: 5, Sys: [4]byte{1, 2, 3, 4}, Item: wide})}
	case 14:
		// texts the parser must refuse, each for a different reason
		texts := []string{
			"S1F1 W H->E <L <U1 a> ... <U1 b> ...> .",
			"S1F1 W H->E <L <U1 x> <L <I2 x>>> .",
			"S1F1 W H->E <A[2] \"abc\"> .",
			"S1F1 W H->E <U1 300> .",
			"S1F2 W H->E <L> .",
			"S1F1 W H->E <L ... <U1 1>> .",
			"S1F1 W H->E <L[1] <U1 1> <U1 2>>\nS2F1 <B 256> .",
		}
		return &sharedObj{special: "refused-text", kind: "text", text: texts[r.Intn(len(texts))]}
	case 24, 25, 26:
		// round 10: texts that are refused because a FACTORY of package ast panics inside the parser (two ellipses in one
		// list, bounds the wrong way round, a name used twice across lists): the parser's recover path runs while other
		// goroutines parse good texts - present and hot in every round
		texts := []string{
			"S1F1 W H->E twice\n<L <A x> ... <U1 y> ...> .",
			"S1F1 W H->E reversed\n<L <A[5..2] x> <U1 1>> .",
			"S1F1 W H->E dup\n<L <L <U1 n>> <L <B n>>> .\nS1F3 W <L <U1 1> ...[0] <U1 2> ...[1]> .",
		}
		return &sharedObj{special: "refused-text", kind: "text", text: texts[slot-24]}
	case 15:
		return &sharedObj{special: "refused-calls", kind: "refused", item: ast.NewListNode("item", ast.NewUintNode(1, "b"))}
	case 23:
		// a complete message around a big item: its first encoding takes milliseconds, long enough for other goroutines to
		// derive messages from it meanwhile
		kids := make([]interface{}, 4000+r.Intn(500))
		for i := range kids {
			switch i % 3 {
			case 0:
				kids[i] = ast.NewUintNode(4, i)
			case 1:
				kids[i] = ast.NewASCIINode(fmt.Sprintf("value %d", i))
			default:
				kids[i] = ast.NewListNode(ast.NewFloatNode(8, float64(i)/3), ast.NewBooleanNode(i%2 == 0))
			}
		}
		return &sharedObj{special: "big-message", kind: "data", data: ast.NewHSMSDataMessage("big", 6, 11, 1, "H<-E", ast.NewListNode(kids...), 77, []byte{0, 0, 7, 7}), fill: map[string]interface{}{}}
	case 19, 20:
		// texts whose size declarations carry blanks inside the brackets (legal, never printed): the lexer squeezes them
		a := 200 + 7*slot
		txt := fmt.Sprintf("S1F1 W H->E spaced%d\n<L\n  <A[ %d .. %d ] v>\n  <U1[ 2 ] 1 2>\n  <B [ 1 ..\t3 ] 1 2>\n  <A [ %d ] w>\n  <L [ 2 ] <I2[ ..%d ] 5> <F4 [ %d.. ] 1 2 3 4 5 6 7 8 9>>\n> .\n", slot, a, a+3000, a+11, a+1, slot-15)
		return &sharedObj{special: "spaced-sizes", kind: "text", text: txt}
	case 21, 22:
		// templates whose shared count map asks for hundreds of repetitions (names with three-digit indices)
		n := 300 + 317*(slot-21)
		tpl := ast.NewListNode(ast.NewListNode(ast.NewUintNode(1, "d"), ast.NewASCIINodeVariable("t", 0, -1)), "...")
		return &sharedObj{special: "many-repetitions", kind: "item", item: tpl, fill: map[string]interface{}{}, counts: map[string]interface{}{"...": n}}
	case 17, 18:
		// long float arrays (an encoder that farms out chunks of a long array must give every caller its own chunks back)
		n, size := 20000, 4
		if slot == 18 {
			n, size = 17000, 8
		}
		vals := make([]interface{}, n)
		for i := range vals {
			// round 10: double-precision values that single precision cannot hold exactly (the F4 array rounds every one
			// of them while encoding and printing; nothing has asked this object for anything before the goroutines do)
			vals[i] = float64(i)/3 + float64(slot) + 0.1
		}
		return &sharedObj{special: fmt.Sprintf("floats-f%d", size), kind: "item", item: ast.NewFloatNode(size, vals...), fill: map[string]interface{}{}, counts: map[string]interface{}{}}
	case 16:
		// a long-running parse: a big SML text
		var sb strings.Builder
		sb.WriteString("S6F11 W H->E big\n<L\n")
		for i := 0; i < 60; i++ {
			if i%10 == 0 {
				fmt.Fprintf(&sb, "  <L <U4 %d> <A \"row %d\"> <F8 %d.5> <BOOLEAN T F> v%d>\n", i, i, i, i)
			} else {
				fmt.Fprintf(&sb, "  <L <U4 %d> <A \"row %d\"> <F8 %d.5> <BOOLEAN T F>>\n", i, i, i)
			}
		}
		sb.WriteString("> .\n")
		return &sharedObj{special: "long-text", kind: "text", text: sb.String()}
	}
	if slot == 11 {
		// a big list that holds another big list (an encoder that farms out sub-lists must cope with many callers)
		leaf := ast.NewUintNode(1, uint8(slot))
		inner := make([]interface{}, 1100+r.Intn(50))
		for i := range inner {
			inner[i] = leaf
		}
		outer := make([]interface{}, 1030+r.Intn(20))
		for i := range outer {
			outer[i] = ast.NewBinaryNode(i % 256)
		}
		outer[r.Intn(len(outer))] = ast.NewListNode(inner...)
		outer[r.Intn(len(outer))] = ast.NewListNode(inner...)
		return &sharedObj{special: "big-list", kind: "item", item: ast.NewListNode(outer...), fill: map[string]interface{}{}, counts: map[string]interface{}{}}
	}
	switch slot % 7 {
	case 5:
		// a variable-free tree: its encoder and printer do real work on shared nodes
		g3 := gen.New(r, gen.Profile{MaxDepth: 1 + r.Intn(3), Budget: 200, MaxKids: 4, MaxElems: 4})
		t := g3.Tree()
		var n ast.ItemNode
		if o := real.Try(func() { n = real.Build(t) }); o.Panicked {
			return nil
		}
		return &sharedObj{kind: "item", item: n, fill: map[string]interface{}{}, counts: map[string]interface{}{}}
	case 6:
		// a complete message around a variable-free tree
		g3 := gen.New(r, gen.Profile{MaxDepth: 1 + r.Intn(3), Budget: 200, MaxKids: 4, MaxElems: 4})
		m := g3.Msg(g3.Tree(), true)
		var dm *ast.DataMessage
		if o := real.Try(func() { dm = real.BuildMsg(m) }); o.Panicked {
			return nil
		}
		return &sharedObj{kind: "data", data: dm, fill: map[string]interface{}{}}
	case 0:
		return &sharedObj{kind: "item", item: node, fill: fill, counts: counts}
	case 1:
		m := g.Msg(it, false)
		var dm *ast.DataMessage
		if o := real.Try(func() { dm = real.BuildMsg(m) }); o.Panicked {
			return nil
		}
		return &sharedObj{kind: "data", data: dm, fill: fill}
	case 2:
		sys := r.Bytes(4)
		var c ast.HSMSMessage
		switch r.Intn(4) {
		case 0:
			c = ast.NewHSMSMessageSelectReq(uint16(r.Intn(65536)), sys)
		case 1:
			c = ast.NewHSMSMessageDeselectReq(uint16(r.Intn(65536)), sys)
		case 2:
			c = ast.NewHSMSMessageLinktestReq(sys)
		default:
			c = ast.NewHSMSMessageRejectReq(7, 0, 3, sys, 1)
		}
		return &sharedObj{kind: "control", ctl: c}
	case 3:
		g2 := gen.New(r, gen.Profile{MaxDepth: 2, Budget: 200, Boundary: true})
		m := g2.Msg(g2.Tree(), true)
		return &sharedObj{kind: "bytes", buf: ref.EncodeMessage(m)}
	default:
		m := g.Msg(it, false)
		m.Session = -1
		txt := ref.PrintMsg(m)
		if r.Bool() {
			txt += "\n// comment\n" + ref.PrintMsg(g.Msg(g.Tree(), false))
		}
		return &sharedObj{kind: "text", text: txt}
	}
}

// buildPool constructs n shared objects and their twins. Nothing is asked of the shared objects before the
// concurrent phase (no observer, no encoder), so lazily initialised state is first touched under concurrency.
func buildPool(r *rng.R, n int) []*sharedObj {
	var pool []*sharedObj
	for slot := 0; len(pool) < n; slot++ {
		seed := r.U64()
		o := buildOne(rng.New(seed), slot)
		if o == nil {
			continue
		}
		o.twin = buildOne(rng.New(seed), slot)
		o.got = map[string]string{}
		pool = append(pool, o)
	}
	return pool
}

// freshNameWork builds, prints, fills and parses objects whose variable names have never been seen by the process
// before, and checks them against the model: package-level state keyed by names is then written under concurrency.
func freshNameWork(gr *rng.R, tag string) string {
	g := gen.New(gr, gen.Profile{MaxDepth: 3, Vars: true, Ellipsis: gr.Chance(2, 3), PlainNames: true, Budget: 80, MaxKids: 3, MaxElems: 3})
	it := g.Tree()
	renameVars(it, tag)
	var node ast.ItemNode
	if o := real.Try(func() { node = real.Build(it) }); o.Panicked {
		return "fresh item refused: " + o.Text
	}
	if d := ref.MatchPrinted(real.Str(node), ref.PrintSegs(it)); d != "" {
		return "fresh item printed wrong: " + d
	}
	if !real.EqStrs(node.Variables(), it.Vars()) {
		return fmt.Sprintf("fresh item variables %q want %q", node.Variables(), it.Vars())
	}
	// expand its ellipses (every goroutine does this now and then, with its own fresh template) and compare with the model
	if it.Kind == ref.L {
		counts := map[string]int{}
		raw := map[string]interface{}{}
		for _, v := range it.Vars() {
			if ref.IsEllipsisName(v) {
				counts[v] = 1 + gr.Intn(2)
				raw[v] = counts[v]
			}
		}
		if len(counts) > 0 {
			var exp ast.ItemNode
			if o := real.Try(func() { exp = node.FillVariables(raw) }); o.Panicked {
				return "fresh expansion refused: " + o.Text
			}
			want := ref.Expand(it, counts)
			if d := ref.MatchPrinted(real.Str(exp), ref.PrintSegs(want)); d != "" {
				return "fresh expansion printed wrong: " + d
			}
			if !real.EqStrs(ref.NormEllipsis(exp.Variables()), ref.NormEllipsis(want.Vars())) {
				return fmt.Sprintf("fresh expansion variables %q want %q", exp.Variables(), want.Vars())
			}
		}
	}
	m := g.Msg(it, false)
	m.Session = -1
	msgs, errs, _ := sml.Parse(ref.PrintMsg(m))
	if len(errs) > 0 || len(msgs) != 1 {
		return fmt.Sprintf("fresh text rejected: %q", errs)
	}
	if !real.EqStrs(ref.NormEllipsis(msgs[0].Variables()), ref.NormEllipsis(it.Vars())) {
		return fmt.Sprintf("fresh text variables %q want %q", msgs[0].Variables(), it.Vars())
	}
	// a receive loop of this goroutine's own: decode a frame from a private buffer, reuse the buffer for the next
	// frame, then look at the first message again (it must not live in the caller's buffer)
	{
		f1 := ast.NewHSMSMessageSelectReq(uint16(gr.Intn(65536)), gr.Bytes(4)).ToBytes()
		f2 := ast.NewHSMSMessageLinktestReq(gr.Bytes(4)).ToBytes()
		buf := make([]byte, 14, 64)
		copy(buf, f1)
		m1, ok1 := hsms.Parse(buf)
		copy(buf, f2)
		m2, ok2 := hsms.Parse(buf)
		if !ok1 || !ok2 || m1.Type() != "select.req" || string(m1.ToBytes()) != string(f1) || m2.Type() != "linktest.req" {
			return fmt.Sprintf("a control message decoded from a reused receive buffer changed: %s %x (sent select.req %x)", m1.Type(), m1.ToBytes(), f1)
		}
	}
	sub := map[string]interface{}{}
	for k, v := range fullAssignment(g, it) {
		sub[k] = rawOf(v)
	}
	var filled ast.ItemNode
	if o := real.Try(func() { filled = node.FillVariables(sub) }); o.Panicked {
		return "fresh fill refused: " + o.Text
	}
	for _, v := range filled.Variables() {
		if !ref.IsEllipsisName(v) {
			return "fresh fill left variable " + v
		}
	}
	return ""
}

func renameVars(it *ref.Item, tag string) {
	if it.Var != "" {
		if !ref.IsEllipsisName(it.Var) {
			it.Var += tag
		}
		return
	}
	switch it.Kind {
	case ref.L:
		for _, c := range it.Children {
			renameVars(c, tag)
		}
	case ref.A:
		if it.AVar != "" {
			it.AVar += tag
		}
	default:
		for i := range it.Slots {
			if it.Slots[i].Var != "" {
				it.Slots[i].Var += tag
			}
		}
	}
}

var canaryCounter int

// raceCanary performs a deliberate unsynchronised write/write pair so that a
// clean race log can be told apart from a detector that was not active.
func raceCanary() {
	var wg sync.WaitGroup
	for i := 0; i < 2; i++ {
		wg.Add(1)
		go func() {
			defer wg.Done()
			for k := 0; k < 100; k++ {
				canaryCounter++
				runtime.Gosched()
			}
		}()
	}
	wg.Wait()
}

func runC17(c *ctx) {
	c.Rule = "race-detector build of a multi-goroutine driver: a pool of 200 shared objects (templates with variables and ellipses, messages, control messages, encoded byte strings, SML texts, shared fill maps) whose sequential reference results are computed afterwards on independently constructed twins (nothing is asked of a shared object before the concurrent phase, so lazily initialised state is first touched under concurrency); 32 (thorough 64) goroutines hammer a few hot objects per round with String, ToBytes, Variables, Size, Header, SystemBytes, FillVariables (shared read-only map and private maps), ellipsis expansion, SetWaitBit, SetSessionIDAndSystemBytes, Type, response constructors, hsms.Parse of shared buffers (one nested 600 lists deep that all goroutines decode at the same moment, one with 3600 items) and sml.Parse (incl. a 60-row text), a set of 13 constructor/fill calls and 7 texts that must be refused alone and in company, with Gosched jitter; every round starts with barrages (the big list, the deep nest, two long float arrays, then a walk over the whole pool in the same order by everybody, so that first touches coincide) and the hot set always holds templates with shared count and fill maps and complete messages; every 32nd operation builds, prints, expands, parses and fills an object whose variable names the process has never seen (checked against the model); 4 (thorough 15) rounds with different seeds. Oracle: no WARNING: DATA RACE block in the race log whose stacks include a frame of the library, and every call returns what the same call returned in the sequential pre-pass; a deliberately racy canary must be reported or the run is inconclusive. Also (rounds 5-8): shared texts with blanks inside size brackets, shared count maps asking for 300 and 617 repetitions, two shared float arrays of 17000/20000 values, refusals at the item size limit, every caller clears the slices Parse returned, and in the first-touch walk every message gets its first encoding and first derivations from all goroutines; violations printed before the driver runs out of time stand. non-trivial = a call that started while another goroutine's call on the same object was in flight; distinct by (operation, object, round) Also (round 10): three texts that make a factory of package ast panic inside the parser (the parser's recover path) are hot in every round; the long float arrays hold values single precision cannot hold exactly; at the start of every round ten kinds of untouched objects (F4/F8 arrays of inexact float64 values alone, in lists, in templates and messages, integer arrays from mixed Go types, a 300-element list) are each first called by eight bare goroutines released together by a spin barrier, with nothing between the release and the call."
	c.Assume = []string{"the race detector judges the executions that happened, not all interleavings", "GORACE log_path is set by bin/check"}

	logPrefix := ""
	for _, kv := range strings.Fields(os.Getenv("GORACE")) {
		if strings.HasPrefix(kv, "log_path=") {
			logPrefix = strings.TrimPrefix(kv, "log_path=")
		}
	}
	if logPrefix == "" {
		c.Inconclusive("GORACE log_path not set (run through bin/check)")
		return
	}
	raceCanary()

	rounds := c.pick(4, 15)
	goroutines := c.pick(32, 64)
	opsPer := c.pick(2000, 15000)
	var overlapping, calls, mismatches, compared, freshOps int64
	spent := map[string]int64{} // summed call durations per kind of shared object (where the driver's time goes)
	for round := 0; round < rounds; round++ {
		seed := c.rnd.U64()
		r := rng.New(seed)
		pool := buildPool(r, 200)
		calls += c17FreshBarrage(c, round, seed)
		// few hot objects per round so that the same object is hit concurrently
		hot := make([]*sharedObj, 0, 20)
		for _, i := range r.Perm(len(pool))[:12] {
			hot = append(hot, pool[i])
		}
		// the hand-made objects are hot in every round (long-running calls, calls that must be refused, deep nests)
		var big, deep, bigMsg *sharedObj
		var long, floats []*sharedObj
		for _, o := range pool {
			switch o.special {
			case "":
				continue
			case "big-list":
				big = o // the big nested list: every goroutine encodes it once at the very start of the round, all at once
			case "deep-bytes":
				deep = o // and every goroutine decodes the deep nest several times right after
			}
			if strings.HasPrefix(o.special, "floats-") {
				floats = append(floats, o)
			}
			if o.special == "big-message" {
				bigMsg = o
			}
			if strings.HasPrefix(o.special, "long-") || o.special == "deep-bytes" || o.special == "big-list" || o.special == "big-message" || strings.HasPrefix(o.special, "floats-") {
				long = append(long, o) // expensive calls: each goroutine makes one now and then, so that a few are always in flight
				continue
			}
			already := false
			for _, h := range hot {
				already = already || h == o
			}
			if !already {
				hot = append(hot, o)
			}
		}
		if big == nil || deep == nil || bigMsg == nil || len(floats) != 2 {
			c.Inconclusive("the hand-made shared objects were not built")
			return
		}
		// the hot set always holds templates whose shared count map names an ellipsis, templates with a shared fill map,
		// and complete messages (two of each where the pool has them)
		need := map[string]int{"expand": 2, "fill": 2, "message": 2}
		isHot := func(o *sharedObj) bool {
			for _, h := range hot {
				if h == o {
					return true
				}
			}
			return false
		}
		for _, o := range pool {
			if o.special != "" {
				continue
			}
			want := ""
			switch {
			case o.kind == "item" && len(o.counts) > 0:
				want = "expand"
			case (o.kind == "item" || o.kind == "data") && len(o.fill) > 0:
				want = "fill"
			case o.kind == "data" && len(o.fill) == 0:
				want = "message"
			}
			if want == "" || need[want] == 0 {
				continue
			}
			need[want]--
			if !isHot(o) {
				hot = append(hot, o)
			}
		}
		// The hot loop shares nothing between goroutines except the objects under test: no mutex, no atomic, no
		// channel. Any synchronisation of the monitor itself would order the goroutines' accesses (happens-before)
		// and hide exactly the unsynchronised access pairs the race detector is there to find. Results, call
		// intervals and counters are goroutine-local and merged after the join.
		type call struct {
			obj    int32
			t0, t1 int64
		}
		type local struct {
			calls    []call
			first    map[[2]int]string // (object index, op index) -> first result seen by this goroutine
			varies   []string
			fresh    int
			freshBad []string
		}
		objIndex := map[*sharedObj]int{}
		for i, o := range pool {
			objIndex[o] = i
		}
		locals := make([]*local, goroutines)
		var wg sync.WaitGroup
		t00 := time.Now()
		for gI := 0; gI < goroutines; gI++ {
			wg.Add(1)
			gr := rng.New(rng.Mix(seed, uint64(gI)))
			gID := gI
			lc := &local{first: map[[2]int]string{}}
			locals[gI] = lc
			go func() {
				defer wg.Done()
				{
					t0 := int64(time.Since(t00))
					got := doOp(big, "ToBytes", "")
					lc.calls = append(lc.calls, call{int32(objIndex[big]), t0, int64(time.Since(t00))})
					lc.first[[2]int{objIndex[big], 1}] = got
				}
				for rep := 0; rep < 8; rep++ {
					t0 := int64(time.Since(t00))
					got := doOp(deep, "hsms.Parse", "")
					lc.calls = append(lc.calls, call{int32(objIndex[deep]), t0, int64(time.Since(t00))})
					key := [2]int{objIndex[deep], 0}
					if first, seen := lc.first[key]; !seen {
						lc.first[key] = got
					} else if got != first && len(lc.varies) < 3 {
						lc.varies = append(lc.varies, fmt.Sprintf("bytes.hsms.Parse of the deep nest returned %q and %q", clipS(first), clipS(got)))
					}
				}
				note := func(o *sharedObj, oi int, got string, t0 int64) {
					lc.calls = append(lc.calls, call{int32(objIndex[o]), t0, int64(time.Since(t00))})
					key := [2]int{objIndex[o], oi}
					if first, seen := lc.first[key]; !seen {
						lc.first[key] = got
					} else if got != first && len(lc.varies) < 3 {
						lc.varies = append(lc.varies, fmt.Sprintf("%s.%s returned %q and %q", o.kind, c17Ops[o.kind][oi], clipS(first), clipS(got)))
					}
				}
				// the big message: its first encoding and the first derivations from it, by everybody at once, in either order
				for rep := 0; rep < 2; rep++ {
					first, second := 1, 7 // ToBytes, SetSession
					if (gID+rep)%2 == 1 {
						first, second = 7, 1
					}
					for _, k := range []int{first, second} {
						t0 := int64(time.Since(t00))
						note(bigMsg, k, doOp(bigMsg, c17Ops["data"][k], ""), t0)
					}
				}
				// both long float arrays, alternately, by everybody at once
				for rep := 0; rep < 6; rep++ {
					o := floats[(rep+gID)%2]
					t0 := int64(time.Since(t00))
					note(o, 1, doOp(o, "ToBytes", ""), t0)
				}
				// first touch: every goroutine walks the whole pool in the same order, so that the first calls an object
				// ever sees arrive together (lazily initialised state, once-only work, not-yet-encoded messages)
				for idx, o := range pool {
					if o.special != "" && o.special != "refused-calls" && o.special != "refused-text" {
						continue
					}
					ops := c17Ops[o.kind]
					oi := (gID + idx) % len(ops)
					t0 := int64(time.Since(t00))
					note(o, oi, doOp(o, ops[oi], fmt.Sprintf("w%dg%df%d", round, gID, idx)), t0)
					if o.kind == "data" {
						// a message's first encoding and the first derivations from it, by everybody, in either order
						first, second := 1, 7 // ToBytes, SetSession
						if gID%2 == 1 {
							first, second = 7, 1
						}
						if (gID/2)%2 == 1 {
							second = 6 // SetWaitBit
						}
						for _, k := range []int{first, second} {
							t0 := int64(time.Since(t00))
							note(o, k, doOp(o, ops[k], ""), t0)
						}
					}
				}
				for k := 0; k < opsPer; k++ {
					var o *sharedObj
					switch {
					case gr.Chance(1, 300):
						o = long[gr.Intn(len(long))]
					case gr.Chance(4, 5):
						o = hot[gr.Intn(len(hot))]
					default:
						o = pool[gr.Intn(len(pool))]
						if o.special != "" && gr.Chance(9, 10) {
							o = hot[gr.Intn(len(hot))]
						}
					}
					ops := c17Ops[o.kind]
					oi := gr.Intn(len(ops))
					op := ops[oi]
					if gr.Chance(1, 4) {
						runtime.Gosched()
					}
					t0 := int64(time.Since(t00))
					got := doOp(o, op, fmt.Sprintf("w%dg%dk%d", round, gID, k))
					t1 := int64(time.Since(t00))
					lc.calls = append(lc.calls, call{int32(objIndex[o]), t0, t1})
					key := [2]int{objIndex[o], oi}
					if first, seen := lc.first[key]; !seen {
						lc.first[key] = got
					} else if got != first && len(lc.varies) < 3 {
						lc.varies = append(lc.varies, fmt.Sprintf("%s.%s returned %q and %q", o.kind, op, clipS(first), clipS(got)))
					}
					if k%32 == 17 {
						lc.fresh++
						if d := freshNameWork(gr, fmt.Sprintf("_r%dg%dk%d", round, gID, k)); d != "" && len(lc.freshBad) < 3 {
							lc.freshBad = append(lc.freshBad, d)
						}
					}
				}
			}()
		}
		wg.Wait()
		// merge
		perObj := make([][]call, len(pool))
		for _, lc := range locals {
			calls += int64(len(lc.calls))
			freshOps += int64(lc.fresh)
			for _, cl := range lc.calls {
				perObj[cl.obj] = append(perObj[cl.obj], cl)
				k := pool[cl.obj].kind
				if sp := pool[cl.obj].special; sp != "" {
					k = sp
				}
				spent[k] += cl.t1 - cl.t0
			}
			for _, v := range lc.varies {
				c.Violation("C17/result-varies-between-calls", v, c17Case{Seed: seed, Round: round})
			}
			for _, v := range lc.freshBad {
				c.Violation("C17/fresh-object-wrong-under-concurrency", v, c17Case{Seed: seed, Round: round, Note: "fresh names"})
			}
			for key, got := range lc.first {
				o := pool[key[0]]
				op := c17Ops[o.kind][key[1]]
				if prev, ok := o.got[op]; ok && prev != got {
					c.Violation("C17/result-varies-between-goroutines/"+o.kind+"."+op, fmt.Sprintf("%q vs %q", clipS(prev), clipS(got)), c17Case{Seed: seed, Round: round, Note: op})
				}
				o.got[op] = got
			}
		}
		// calls that started while another goroutine's call on the same object was in flight
		for _, cs := range perObj {
			sort.Slice(cs, func(a, b int) bool { return cs[a].t0 < cs[b].t0 })
			var maxEnd int64 = -1
			for _, cl := range cs {
				if cl.t0 < maxEnd {
					overlapping++
				}
				if cl.t1 > maxEnd {
					maxEnd = cl.t1
				}
			}
		}
		// sequential reference pass, afterwards and on the twins only
		for _, o := range pool {
			for op, got := range o.got {
				if want := doOp(o.twin, op, "wtwin"); got != want {
					if func() bool { mismatches++; return mismatches <= 6 }() {
						c.Violation("C17/result-differs-from-sequential/"+o.kind+"."+op, fmt.Sprintf("%s.%s under concurrency returned %q, an equal object asked alone returns %q", o.kind, op, clipS(got), clipS(want)), c17Case{Seed: seed, Round: round, Note: op})
					}
				}
				compared++
			}
		}
	}
	for k, ns := range spent {
		c.ClassN("call-milliseconds/"+k, ns/1e6)
	}
	c.ClassN("operations-compared-with-sequential-twin", compared)
	c.ClassN("fresh-name-constructions-under-concurrency", freshOps)
	c.NoteBulk(calls, overlapping)
	c.ClassN("calls", calls)
	c.ClassN("calls-overlapping-on-the-same-object", overlapping)

	// read the race log
	files, _ := filepath.Glob(logPrefix + ".*")
	canarySeen := false
	libRaces := map[string]string{}
	blocks := 0
	for _, f := range files {
		b, err := os.ReadFile(f)
		if err != nil {
			continue
		}
		for _, blk := range strings.Split(string(b), "==================") {
			if !strings.Contains(blk, "WARNING: DATA RACE") {
				continue
			}
			blocks++
			if strings.Contains(blk, "github.com/wolimst/lib-secs2-hsms-go/") {
				// de-duplicate by the outermost library frames
				var frames []string
				for _, ln := range strings.Split(blk, "\n") {
					t := strings.TrimSpace(ln)
					if strings.HasPrefix(t, "github.com/wolimst/lib-secs2-hsms-go/") {
						if i := strings.LastIndex(t, "("); i > 0 {
							t = t[:i]
						}
						frames = append(frames, strings.TrimPrefix(t, "github.com/wolimst/lib-secs2-hsms-go/"))
					}
				}
				key := strings.Join(frames, " <- ")
				if len(key) > 300 {
					key = key[:300]
				}
				if _, ok := libRaces[key]; !ok {
					libRaces[key] = blk
				}
			} else if strings.Contains(blk, "raceCanary") {
				canarySeen = true
			}
		}
	}
	c.ClassN("race-report-blocks", int64(blocks))
	c.ClassN("race-reports-in-library(distinct)", int64(len(libRaces)))
	if !canarySeen {
		c.Inconclusive("the race-detector canary was not reported: the detector does not seem to be active in this build")
	} else {
		c.Class("canary-reported")
	}
	for key, blk := range libRaces {
		c.Violation("C17/data-race/"+key, "race detector report: "+clipS(strings.TrimSpace(blk)), c17Case{Note: blk})
	}
	c.Sample(map[string]interface{}{"rounds": rounds, "goroutines": goroutines, "ops_per_goroutine": opsPer, "calls": calls, "overlapping_calls": overlapping, "race_blocks": blocks, "canary_reported": canarySeen})
	c.Required = []string{"fresh-objects-first-called-by-eight-goroutines-at-once", "canary-reported", "calls-overlapping-on-the-same-object", "operations-compared-with-sequential-twin", "fresh-name-constructions-under-concurrency"}
}

// c17Parent re-executes this binary as the child that does the work and interprets how it ended.
func c17Parent(c *ctx) int {
	exe, _ := os.Executable()
	cmd := exec.Command(exe, os.Args[1:]...)
	cmd.Env = append(os.Environ(), "VERIF_C17_CHILD=1")
	var outBuf bytes.Buffer
	cmd.Stdout = io.MultiWriter(os.Stdout, &outBuf)
	var errBuf bytes.Buffer
	cmd.Stderr = &errBuf
	// a generous wall-clock limit (the driver normally needs well under a minute in the quick tier): when it expires
	// the driver gets SIGQUIT so that the goroutine dump shows where everything is blocked
	limit := time.Duration(c.pick(12, 90)) * time.Minute
	if err := cmd.Start(); err != nil {
		fmt.Println("INCONCLUSIVE property=C17 reason=cannot start the driver:", err)
		return 2
	}
	done := make(chan error, 1)
	go func() { done <- cmd.Wait() }()
	var err error
	hung := false
	select {
	case err = <-done:
	case <-time.After(limit):
		hung = true
		cmd.Process.Signal(syscall.SIGQUIT)
		select {
		case err = <-done:
		case <-time.After(30 * time.Second):
			cmd.Process.Kill()
			err = <-done
		}
	}
	if hung {
		dump := errBuf.String()
		blocked := strings.Count(dump, "github.com/wolimst/lib-secs2-hsms-go/")
		head := dump
		if len(head) > 4000 {
			head = head[:4000]
		}
		// a goroutine counts only if its own stack has a library frame; the verdict "hung inside the library" needs at
		// least one such goroutine parked on a lock/channel and none of them running or runnable (a slow driver on a
		// loaded machine has running ones, and the driver's own wg.Wait is not a library frame)
		parked, active := 0, 0
		for _, blk := range strings.Split(dump, "\n\ngoroutine ")[1:] {
			if !strings.Contains(blk, "github.com/wolimst/lib-secs2-hsms-go/") {
				continue
			}
			hdr := blk
			if i := strings.Index(hdr, "\n"); i >= 0 {
				hdr = hdr[:i]
			}
			switch {
			case strings.Contains(hdr, "[chan send") || strings.Contains(hdr, "[chan receive") || strings.Contains(hdr, "[semacquire") || strings.Contains(hdr, "[sync.") || strings.Contains(hdr, "[select"):
				parked++
			default:
				active++
			}
		}
		if blocked > 0 && parked > 0 && active == 0 {
			c.Rule = "the concurrent driver made no progress: see the goroutine dump"
			c.NoteBulk(2, 2)
			c.Sample(map[string]interface{}{"driver": "hung", "limit_minutes": limit.Minutes(), "goroutine_dump_head": firstLines(head, 40)})
			c.Violation("C17/driver-hung-inside-the-library", fmt.Sprintf("after %v the concurrent driver had not finished; the goroutine dump shows %d library frames, all in goroutines parked on locks or channels: %s", limit, blocked, firstLines(head, 12)), c17Case{Note: head})
			return c.Finish()
		}
		if n := strings.Count(outBuf.String(), "VIOLATION property=C17"); n > 0 {
			// the driver had already reported violations (they are on stdout, with their replay files) when it ran out of
			// time, typically because thousands of race reports were being written: the verdict stands
			c.Rule = "the concurrent driver reported violations and then did not finish within its wall-clock limit; see its VIOLATION lines"
			c.NoteBulk(2, 2)
			c.Sample(map[string]interface{}{"driver": "did not finish", "limit_minutes": limit.Minutes(), "violations_reported_before": n})
			c.Violation("C17/driver-did-not-finish-after-reporting-violations", fmt.Sprintf("the driver printed %d VIOLATION lines and had not finished after %v", n, limit), c17Case{Note: firstLines(outBuf.String(), 20)})
			return c.Finish()
		}
		os.Stderr.WriteString(head)
		fmt.Printf("INCONCLUSIVE property=C17 reason=the driver did not finish within %v (no blocked library frame in the dump)\n", limit)
		return 2
	}
	code := 0
	if ee, ok := err.(*exec.ExitError); ok {
		code = ee.ExitCode()
	} else if err != nil {
		fmt.Println("INCONCLUSIVE property=C17 reason=cannot run the driver:", err)
		return 2
	}
	stderr := errBuf.String()
	if code == 0 || code == 1 {
		os.Stderr.WriteString(stderr)
		return code
	}
	// abnormal end of the driver
	head := stderr
	if len(head) > 3000 {
		head = head[:3000]
	}
	if strings.Contains(stderr, "fatal error: concurrent map") || strings.Contains(stderr, "github.com/wolimst/lib-secs2-hsms-go/") {
		kind := "runtime-fatal"
		if strings.Contains(stderr, "fatal error: concurrent map") {
			kind = "concurrent-map-access"
		}
		c.Rule = "see bin/check C17 on a tree where the driver completes; this run ended when the Go runtime killed the driver"
		c.NoteBulk(2, 2)
		c.Sample(map[string]interface{}{"driver_exit_code": code, "stderr_head": firstLines(head, 12)})
		c.Violation("C17/driver-killed-by-runtime/"+kind, "the concurrent driver was killed by the Go runtime with library frames on the stack: "+firstLines(head, 6), c17Case{Note: head})
		return c.Finish()
	}
	os.Stderr.WriteString(stderr)
	fmt.Printf("INCONCLUSIVE property=C17 reason=the driver ended with exit code %d\n", code)
	return 2
}

func replayC17(c *ctx, raw json.RawMessage) {
	fmt.Println("C17 violations are schedule-dependent: re-run bin/check C17 (the replay file holds the race report and the round seed)")
}
