package main

import (
	"encoding/json"
	"fmt"
	"os"
	"path/filepath"
	"runtime"
	"strings"
	"sync"
	"sync/atomic"

	"verifharness/internal/gen"
	"verifharness/internal/real"
	"verifharness/internal/ref"
	"verifharness/internal/rng"

	"github.com/wolimst/lib-secs2-hsms-go/pkg/ast"
	"github.com/wolimst/lib-secs2-hsms-go/pkg/parser/hsms"
	"github.com/wolimst/lib-secs2-hsms-go/pkg/parser/sml"
)

// C17 — shared items, messages and parsers are safe for concurrent use.
// Oracle: the Go race detector (this binary is built with -race; GORACE sends
// reports to work/C17/race.*) + per-call equality with the sequential result.

type c17Case struct {
	Seed  uint64 `json:"seed"`
	Round int    `json:"round"`
	Note  string `json:"note"`
}

func init() { register("C17", "exploration", runC17, replayC17) }

type sharedObj struct {
	kind     string
	item     ast.ItemNode
	data     *ast.DataMessage
	ctl      ast.HSMSMessage
	buf      []byte // encoded message, shared read-only input of hsms.Parse
	text     string // SML text
	fill     map[string]interface{}
	counts   map[string]interface{}
	expected map[string]string
	inflight int32
}

var c17Ops = map[string][]string{
	"item":    {"String", "ToBytes", "Variables", "Size", "Fill/shared-map", "Fill/private-map", "Expand"},
	"data":    {"String", "ToBytes", "Variables", "Header", "SystemBytes", "Fill/shared-map", "SetWaitBit", "SetSession", "Accessors"},
	"control": {"Type", "ToBytes", "Response"},
	"bytes":   {"hsms.Parse"},
	"text":    {"sml.Parse"},
}

func msgSummary(m *ast.DataMessage) string {
	s := real.Snap(m)
	b, _ := json.Marshal(s)
	return string(b)
}

// doOp performs one operation and renders its result as a string.
func doOp(o *sharedObj, op string) (res string) {
	defer func() {
		if r := recover(); r != nil {
			res = "panic: " + fmt.Sprint(r)
		}
	}()
	switch o.kind {
	case "item":
		switch op {
		case "String":
			return real.Str(o.item)
		case "ToBytes":
			return string(o.item.ToBytes())
		case "Variables":
			return strings.Join(o.item.Variables(), ",")
		case "Size":
			return fmt.Sprint(o.item.Size())
		case "Fill/shared-map":
			return real.Str(o.item.FillVariables(o.fill))
		case "Fill/private-map":
			m := map[string]interface{}{}
			for k, v := range o.fill {
				m[k] = v
			}
			n := o.item.FillVariables(m)
			return real.Str(n) + "|" + string(n.ToBytes())
		case "Expand":
			n := o.item.FillVariables(o.counts)
			return real.Str(n) + "|" + strings.Join(n.Variables(), ",")
		}
	case "data":
		switch op {
		case "String":
			return o.data.String()
		case "ToBytes":
			return string(o.data.ToBytes())
		case "Variables":
			return strings.Join(o.data.Variables(), ",")
		case "Header":
			return o.data.Header()
		case "SystemBytes":
			return fmt.Sprintf("%x", o.data.SystemBytes())
		case "Fill/shared-map":
			return msgSummary(o.data.FillVariables(o.fill))
		case "SetWaitBit":
			return msgSummary(o.data.SetWaitBit(false))
		case "SetSession":
			return msgSummary(o.data.SetSessionIDAndSystemBytes(4242, []byte{9, 9, 9, 9}))
		case "Accessors":
			return fmt.Sprint(o.data.Name(), o.data.StreamCode(), o.data.FunctionCode(), o.data.WaitBit(), o.data.Direction(), o.data.SessionID(), o.data.Type())
		}
	case "control":
		switch op {
		case "Type":
			return o.ctl.Type()
		case "ToBytes":
			return string(o.ctl.ToBytes())
		case "Response":
			switch o.ctl.Type() {
			case "select.req":
				return string(ast.NewHSMSMessageSelectRsp(o.ctl, 1).ToBytes())
			case "deselect.req":
				return string(ast.NewHSMSMessageDeselectRsp(o.ctl, 2).ToBytes())
			case "linktest.req":
				return string(ast.NewHSMSMessageLinktestRsp(o.ctl).ToBytes())
			}
			return o.ctl.Type()
		}
	case "bytes":
		m, ok := hsms.Parse(o.buf)
		if !ok {
			return "not ok"
		}
		if dm, isData := m.(*ast.DataMessage); isData {
			return msgSummary(dm)
		}
		return m.Type() + string(m.ToBytes())
	case "text":
		msgs, errs, warns := sml.Parse(o.text)
		var sb strings.Builder
		for _, m := range msgs {
			sb.WriteString(msgSummary(m))
		}
		return sb.String() + fmt.Sprint(errs, warns)
	}
	return "?"
}

func buildPool(r *rng.R, n int) []*sharedObj {
	var pool []*sharedObj
	for len(pool) < n {
		g := gen.New(r, gen.Profile{MaxDepth: 1 + r.Intn(3), Vars: true, Ellipsis: r.Bool(), PlainNames: true, Budget: 120, MaxKids: 3, MaxElems: 4})
		it := g.Tree()
		var node ast.ItemNode
		if o := real.Try(func() { node = real.Build(it) }); o.Panicked {
			continue
		}
		counts := map[string]interface{}{}
		for _, v := range it.Vars() {
			if ref.IsEllipsisName(v) {
				counts[v] = r.Intn(3)
			}
		}
		fill := map[string]interface{}{}
		for k, v := range fullAssignment(g, it) {
			if r.Chance(2, 3) {
				fill[k] = rawOf(v)
			}
		}
		switch len(pool) % 5 {
		case 0:
			pool = append(pool, &sharedObj{kind: "item", item: node, fill: fill, counts: counts})
		case 1:
			m := g.Msg(it, false)
			var dm *ast.DataMessage
			if o := real.Try(func() { dm = real.BuildMsg(m) }); o.Panicked {
				continue
			}
			pool = append(pool, &sharedObj{kind: "data", data: dm, fill: fill})
		case 2:
			sys := r.Bytes(4)
			var c ast.HSMSMessage
			switch r.Intn(4) {
			case 0:
				c = ast.NewHSMSMessageSelectReq(uint16(r.Intn(65536)), sys)
			case 1:
				c = ast.NewHSMSMessageDeselectReq(uint16(r.Intn(65536)), sys)
			case 2:
				c = ast.NewHSMSMessageLinktestReq(sys)
			default:
				c = ast.NewHSMSMessageRejectReq(7, 0, 3, sys, 1)
			}
			pool = append(pool, &sharedObj{kind: "control", ctl: c})
		case 3:
			g2 := gen.New(r, gen.Profile{MaxDepth: 2, Budget: 200, Boundary: true})
			m := g2.Msg(g2.Tree(), true)
			pool = append(pool, &sharedObj{kind: "bytes", buf: ref.EncodeMessage(m)})
		case 4:
			m := g.Msg(it, false)
			m.Session = -1
			txt := ref.PrintMsg(m)
			if r.Bool() {
				txt += "\n// comment\n" + ref.PrintMsg(g.Msg(g.Tree(), false))
			}
			pool = append(pool, &sharedObj{kind: "text", text: txt})
		}
	}
	// sequential pre-pass
	for _, o := range pool {
		o.expected = map[string]string{}
		for _, op := range c17Ops[o.kind] {
			o.expected[op] = doOp(o, op)
		}
	}
	return pool
}

var canaryCounter int

// raceCanary performs a deliberate unsynchronised write/write pair so that a
// clean race log can be told apart from a detector that was not active.
func raceCanary() {
	var wg sync.WaitGroup
	for i := 0; i < 2; i++ {
		wg.Add(1)
		go func() {
			defer wg.Done()
			for k := 0; k < 100; k++ {
				canaryCounter++
				runtime.Gosched()
			}
		}()
	}
	wg.Wait()
}

func runC17(c *ctx) {
	c.Rule = "race-detector build of a multi-goroutine driver: a pool of 200 shared objects (templates with variables and ellipses, messages, control messages, encoded byte strings, SML texts, shared fill maps) with their sequential results; 32 (thorough 64) goroutines hammer a few hot objects per round with String, ToBytes, Variables, Size, Header, SystemBytes, FillVariables (shared read-only map and private maps), ellipsis expansion, SetWaitBit, SetSessionIDAndSystemBytes, Type, response constructors, hsms.Parse of a shared buffer and sml.Parse, with Gosched jitter; 4 (thorough 25) rounds with different seeds. Oracle: no WARNING: DATA RACE block in the race log whose stacks include a frame of the library, and every call returns what the same call returned in the sequential pre-pass; a deliberately racy canary must be reported or the run is inconclusive. non-trivial = a call that started while another goroutine's call on the same object was in flight; distinct by (operation, object, round)"
	c.Assume = []string{"the race detector judges the executions that happened, not all interleavings", "GORACE log_path is set by bin/check"}

	logPrefix := ""
	for _, kv := range strings.Fields(os.Getenv("GORACE")) {
		if strings.HasPrefix(kv, "log_path=") {
			logPrefix = strings.TrimPrefix(kv, "log_path=")
		}
	}
	if logPrefix == "" {
		c.Inconclusive("GORACE log_path not set (run through bin/check)")
		return
	}
	raceCanary()

	rounds := c.pick(4, 25)
	goroutines := c.pick(32, 64)
	opsPer := c.pick(2000, 40000)
	var overlapping, calls, mismatches int64
	for round := 0; round < rounds; round++ {
		seed := c.rnd.U64()
		r := rng.New(seed)
		pool := buildPool(r, 200)
		// few hot objects per round so that the same object is hit concurrently
		hot := make([]*sharedObj, 0, 12)
		for _, i := range r.Perm(len(pool))[:12] {
			hot = append(hot, pool[i])
		}
		var wg sync.WaitGroup
		for gI := 0; gI < goroutines; gI++ {
			wg.Add(1)
			gr := rng.New(rng.Mix(seed, uint64(gI)))
			go func() {
				defer wg.Done()
				for k := 0; k < opsPer; k++ {
					var o *sharedObj
					if gr.Chance(4, 5) {
						o = hot[gr.Intn(len(hot))]
					} else {
						o = pool[gr.Intn(len(pool))]
					}
					ops := c17Ops[o.kind]
					op := ops[gr.Intn(len(ops))]
					if atomic.AddInt32(&o.inflight, 1) > 1 {
						atomic.AddInt64(&overlapping, 1)
					}
					if gr.Chance(1, 4) {
						runtime.Gosched()
					}
					got := doOp(o, op)
					atomic.AddInt32(&o.inflight, -1)
					atomic.AddInt64(&calls, 1)
					if got != o.expected[op] {
						if atomic.AddInt64(&mismatches, 1) <= 3 {
							c.Violation("C17/result-differs-from-sequential/"+o.kind+"."+op, fmt.Sprintf("%s.%s under concurrency returned %q, alone %q", o.kind, op, clipS(got), clipS(o.expected[op])), c17Case{Seed: seed, Round: round, Note: op})
						}
					}
				}
			}()
		}
		wg.Wait()
	}
	c.NoteBulk(calls, overlapping)
	c.ClassN("calls", calls)
	c.ClassN("calls-overlapping-on-the-same-object", overlapping)

	// read the race log
	files, _ := filepath.Glob(logPrefix + ".*")
	canarySeen := false
	libRaces := map[string]string{}
	blocks := 0
	for _, f := range files {
		b, err := os.ReadFile(f)
		if err != nil {
			continue
		}
		for _, blk := range strings.Split(string(b), "==================") {
			if !strings.Contains(blk, "WARNING: DATA RACE") {
				continue
			}
			blocks++
			if strings.Contains(blk, "github.com/wolimst/lib-secs2-hsms-go/") {
				// de-duplicate by the outermost library frames
				var frames []string
				for _, ln := range strings.Split(blk, "\n") {
					t := strings.TrimSpace(ln)
					if strings.HasPrefix(t, "github.com/wolimst/lib-secs2-hsms-go/") {
						frames = append(frames, strings.SplitN(t, "(", 2)[0])
					}
				}
				key := strings.Join(frames, " <- ")
				if len(key) > 300 {
					key = key[:300]
				}
				if _, ok := libRaces[key]; !ok {
					libRaces[key] = blk
				}
			} else if strings.Contains(blk, "raceCanary") {
				canarySeen = true
			}
		}
	}
	c.ClassN("race-report-blocks", int64(blocks))
	c.ClassN("race-reports-in-library(distinct)", int64(len(libRaces)))
	if !canarySeen {
		c.Inconclusive("the race-detector canary was not reported: the detector does not seem to be active in this build")
	} else {
		c.Class("canary-reported")
	}
	for key, blk := range libRaces {
		c.Violation("C17/data-race/"+key, "race detector report: "+clipS(strings.TrimSpace(blk)), c17Case{Note: blk})
	}
	c.Sample(map[string]interface{}{"rounds": rounds, "goroutines": goroutines, "ops_per_goroutine": opsPer, "calls": calls, "overlapping_calls": overlapping, "race_blocks": blocks, "canary_reported": canarySeen})
	c.Required = []string{"canary-reported", "calls-overlapping-on-the-same-object"}
}

func replayC17(c *ctx, raw json.RawMessage) {
	fmt.Println("C17 violations are schedule-dependent: re-run bin/check C17 (the replay file holds the race report and the round seed)")
}
