package main

import (
	"encoding/json"
	"fmt"
	"os"
	"sort"

	"verifharness/internal/gen"
	"verifharness/internal/real"
	"verifharness/internal/ref"
	"verifharness/internal/rng"

	"github.com/wolimst/lib-secs2-hsms-go/pkg/ast"
)

// C10 — ellipsis expansion repeats, renames and renumbers as documented
// (reference expander oracle; exhaustive over all small templates).

type c10Case struct {
	Tpl    *ref.Item      `json:"template"`
	Counts map[string]int `json:"counts"`
	Step1  []string       `json:"step1,omitempty"` // keys filled in a first step (two-step variant)
}

func init() { register("C10", "exploration", runC10, replayC10) }

func dupNames(v []string) bool {
	seen := map[string]bool{}
	for _, n := range v {
		if seen[n] {
			return true
		}
		seen[n] = true
	}
	return false
}

func countsRaw(m map[string]int) map[string]interface{} {
	out := map[string]interface{}{}
	for k, v := range m {
		out[k] = v
	}
	return out
}

// expectedSize bounds the expansion so that random cases stay small.
func expandedNodes(it *ref.Item, counts map[string]int) int {
	if it.Var != "" || it.Kind != ref.L {
		return 1
	}
	p, n := -1, 0
	for i, c := range it.Children {
		if c.Var != "" && ref.IsEllipsisName(c.Var) {
			if v, ok := counts[c.Var]; ok {
				p, n = i, v
			}
		}
	}
	total := 1
	for i, c := range it.Children {
		sz := expandedNodes(c, counts)
		if p >= 0 && i < p {
			sz *= n + 1
		}
		total += sz
		if total > 1<<22 {
			return total
		}
	}
	return total
}

func valueFor(it *ref.Item, name string, r *rng.R) (ref.Val, bool) {
	// find the variable and produce an in-domain value for its position
	var out ref.Val
	found := false
	var walk func(x *ref.Item)
	walk = func(x *ref.Item) {
		if found {
			return
		}
		if x.Var != "" {
			if x.Var == name {
				out = ref.Val{Item: &ref.Item{Kind: ref.U2, Slots: []ref.Slot{{Uint: uint64(r.Intn(65536))}}}}
				found = true
			}
			return
		}
		switch x.Kind {
		case ref.L:
			for _, c := range x.Children {
				walk(c)
			}
		case ref.A:
			if x.AVar == name {
				n := x.AMin
				if x.AMax > x.AMin {
					n += r.Intn(spanCap(x.AMax-x.AMin) + 1)
				}
				s := make([]byte, n)
				for i := range s {
					s[i] = byte('a' + r.Intn(26))
				}
				out = ref.Val{Str: s, IsS: true}
				found = true
			}
		default:
			for _, s := range x.Slots {
				if s.Var == name {
					g := gen.New(r, gen.Profile{})
					out = valSlot(x.Kind, g.Value(x.Kind))
					found = true
				}
			}
		}
	}
	walk(it)
	return out, found
}

// renameEllipses gives the ellipses of a model tree the given names, by position.
func renameEllipses(it *ref.Item, names []string) (orig []string) {
	i := 0
	var walk func(x *ref.Item)
	walk = func(x *ref.Item) {
		for _, c := range x.Children {
			if c.Var != "" {
				if ref.IsEllipsisName(c.Var) {
					orig = append(orig, c.Var)
					if i < len(names) {
						c.Var = names[i]
					}
					i++
				}
				continue
			}
			if c.Kind == ref.L {
				walk(c)
			}
		}
	}
	walk(it)
	return
}

func ellipsisNames(vars []string) []string {
	var out []string
	for _, v := range vars {
		if ref.IsEllipsisName(v) {
			out = append(out, v)
		}
	}
	return out
}

// c10Compare checks a real result against the expected model tree.
func c10Compare(c *ctx, cs c10Case, stage string, got ast.ItemNode, want *ref.Item, renumbered bool) bool {
	s := real.SnapItem(got)
	if d := ref.MatchPrinted(s.Str, ref.PrintSegs(want)); d != "" {
		c.Violation("C10/"+stage+"/printed-form", fmt.Sprintf("%s; template %s counts %v", d, clipS(ref.Print(cs.Tpl)), cs.Counts), cs)
		return false
	}
	if s.Size != want.Size() {
		c.Violation("C10/"+stage+"/size", fmt.Sprintf("Size()=%d want %d", s.Size, want.Size()), cs)
		return false
	}
	if !real.EqStrs(ref.NormEllipsis(s.Vars), ref.NormEllipsis(want.Vars())) {
		c.Violation("C10/"+stage+"/variable-names", fmt.Sprintf("Variables()=%q want %q; template %s counts %v", s.Vars, want.Vars(), clipS(ref.Print(cs.Tpl)), cs.Counts), cs)
		return false
	}
	if d := ref.EllipsisNamesOK(s.Vars, renumbered); d != "" {
		c.Violation("C10/"+stage+"/ellipsis-naming", fmt.Sprintf("%s: Variables()=%q; template %s counts %v", d, s.Vars, clipS(ref.Print(cs.Tpl)), cs.Counts), cs)
		return false
	}
	return true
}

func c10Eval(c *ctx, cs c10Case) {
	var tpl ast.ItemNode
	if o := real.Try(func() { tpl = real.Build(cs.Tpl) }); o.Panicked {
		c.Violation("C10/template-refused", o.String()+" "+clipS(ref.Print(cs.Tpl)), cs)
		return
	}
	tplVars := cs.Tpl.Vars()
	filledAny, nested := false, false
	nfill := 0
	for _, v := range tplVars {
		if n, ok := cs.Counts[v]; ok && ref.IsEllipsisName(v) {
			filledAny = true
			nfill++
			if n >= 1 {
				nested = true
			}
		}
	}
	key := fmt.Sprint(ref.Print(cs.Tpl), tplVars, cs.Counts, cs.Step1)
	c.Note(rng.HashStr(key), nested && len(ellipsisNames(tplVars)) >= 1)

	tplBefore := real.SnapItem(tpl)
	defer func() {
		// the template is immutable: whatever was expanded from it, it still reads the same
		if d := tplBefore.Diff(real.SnapItem(tpl)); d != "" {
			c.Violation("C10/template-changed-by-expansion", fmt.Sprintf("%s; template %s counts %v", d, clipS(ref.Print(cs.Tpl)), cs.Counts), cs)
		}
	}()
	if len(cs.Step1) == 0 {
		var got ast.ItemNode
		shared := countsRaw(cs.Counts) // one map object for this call and the next (the caller keeps and reuses its map)
		o := real.Try(func() { got = tpl.FillVariables(shared) })
		if o.Panicked {
			c.Violation("C10/expansion-refused", fmt.Sprintf("%s; template %s counts %v", o, clipS(ref.Print(cs.Tpl)), cs.Counts), cs)
			return
		}
		want := ref.Expand(cs.Tpl, cs.Counts)
		c.Class("one-step")
		{
			var again ast.ItemNode
			if o := real.Try(func() { again = tpl.FillVariables(shared) }); o.Panicked || real.SnapItem(again).Diff(real.SnapItem(got)) != "" {
				c.Violation("C10/second-expansion-from-the-same-map-differs", fmt.Sprintf("template %s counts %v: the same map object passed again gives another result (%s): %s", clipS(ref.Print(cs.Tpl)), cs.Counts, o, clipS(real.Str(again))), cs)
				return
			}
		}
		// the same expansion asked again gives the same answer (nothing may depend on map iteration order)
		if rng.HashStr(key)%4 == 0 {
			for rep := 0; rep < 2; rep++ {
				var again ast.ItemNode
				if o := real.Try(func() { again = tpl.FillVariables(countsRaw(cs.Counts)) }); o.Panicked || real.SnapItem(again).Diff(real.SnapItem(got)) != "" {
					c.Violation("C10/expansion-not-deterministic", fmt.Sprintf("template %s counts %v: repeated expansion differs (%s)", clipS(ref.Print(cs.Tpl)), cs.Counts, o), cs)
					return
				}
			}
		}
		if !filledAny {
			c.Class("nothing-to-expand")
		}
		if !c10Compare(c, cs, "one-step", got, want, filledAny) {
			return
		}
		// round 10: the SAME template object is then expanded with OTHER counts (what was n becomes 0 or is left out, an
		// ellipsis left alone the first time is filled now): the second expansion is the one a fresh template gives
		if ells := ellipsisNames(tplVars); len(ells) > 0 {
			r2 := rng.New(rng.HashStr(key) ^ 0x10a)
			for round := 0; round < 2; round++ {
				counts2 := map[string]int{}
				for _, e := range ells {
					n, was := cs.Counts[e]
					switch {
					case was && n > 0 && r2.Chance(1, 2):
						counts2[e] = 0
					case was && n > 0:
						// left out this time
					case was:
						counts2[e] = 1 + r2.Intn(2)
					case r2.Chance(2, 3):
						counts2[e] = r2.Intn(3)
					}
				}
				if expandedNodes(cs.Tpl, counts2) > 4000 {
					continue
				}
				want2 := ref.Expand(cs.Tpl, counts2)
				if dupNames(want2.Vars()) || ref.EllipsisNamesOK(want2.Vars(), false) != "" {
					continue // these counts would make two names collide; not part of the quantified domain
				}
				cs2 := cs
				cs2.Counts = counts2
				var got2 ast.ItemNode
				if o := real.Try(func() { got2 = tpl.FillVariables(countsRaw(counts2)) }); o.Panicked {
					c.Violation("C10/expansion-refused/second-expansion-of-one-template-with-other-counts", fmt.Sprintf("%s; template %s first counts %v then %v", o, clipS(ref.Print(cs.Tpl)), cs.Counts, counts2), cs2)
					return
				}
				c.Class("second-expansion-of-one-template-with-other-counts")
				if !c10Compare(c, cs2, "second-expansion-with-other-counts(first:"+fmt.Sprint(len(cs.Counts))+")", got2, want2, len(counts2) > 0) {
					return
				}
			}
		}
		if !filledAny && !real.EqStrs(got.Variables(), tplVars) {
			// keys that name no ellipsis of the template are ignored: nothing is renamed or renumbered
			c.Violation("C10/unknown-ellipsis-key-not-ignored", fmt.Sprintf("no ellipsis of %s is named by %v, yet Variables() went from %q to %q", clipS(ref.Print(cs.Tpl)), cs.Counts, tplVars, got.Variables()), cs)
			return
		}
		// each generated name can then be filled individually
		vars := got.Variables()
		var plain []string
		for _, v := range vars {
			if !ref.IsEllipsisName(v) {
				plain = append(plain, v)
			}
		}
		r := rng.New(rng.HashStr(key))
		pick := plain
		if !c.thorough && len(plain) > 2 {
			// quick tier: the first name and one other; thorough tier: all names up to three, else first, last and a random one
			pick = []string{plain[0], plain[1+r.Intn(len(plain)-1)]}
		} else if len(plain) > 3 {
			pick = []string{plain[0], plain[len(plain)-1], plain[r.Intn(len(plain))]}
		}
		for _, name := range pick {
			val, found := valueFor(want, name, r)
			if !found {
				c.Violation("C10/generated-name-not-in-model", name, cs)
				return
			}
			var g2 ast.ItemNode
			o := real.Try(func() { g2 = got.FillVariables(map[string]interface{}{name: rawOf(val)}) })
			if o.Panicked {
				c.Violation("C10/individual-fill-refused", fmt.Sprintf("filling %q: %s", name, o), cs)
				return
			}
			w2, _ := ref.Fill(want, map[string]ref.Val{name: val})
			c.Class("individual-fill")
			s2 := real.SnapItem(g2)
			if d := ref.MatchPrinted(s2.Str, ref.PrintSegs(w2)); d != "" {
				c.Violation("C10/individual-fill-wrong-place", fmt.Sprintf("filling %q: %s", name, d), cs)
				return
			}
			if len(s2.Vars) != len(vars)-1 {
				c.Violation("C10/individual-fill-variable-count", fmt.Sprintf("filling %q: %d -> %d variables", name, len(vars), len(s2.Vars)), cs)
				return
			}
		}
		// counts and values for the names they generate in ONE call, on the item and through a message around it
		if filledAny && len(pick) > 0 {
			all := countsRaw(cs.Counts)
			vals := map[string]ref.Val{}
			for _, name := range pick {
				if val, found := valueFor(want, name, r); found {
					all[name] = rawOf(val)
					vals[name] = val
				}
			}
			all2 := map[string]interface{}{}
			for k, v := range all {
				all2[k] = v
			}
			var g3 ast.ItemNode
			if o := real.Try(func() { g3 = tpl.FillVariables(all) }); o.Panicked {
				c.Violation("C10/counts-and-generated-names-in-one-call/refused", fmt.Sprintf("%s; template %s values %v", o, clipS(ref.Print(cs.Tpl)), all), cs)
				return
			}
			w3, _ := ref.Fill(want, vals)
			c.Class("counts-and-generated-names-in-one-call")
			if d := ref.MatchPrinted(real.SnapItem(g3).Str, ref.PrintSegs(w3)); d != "" {
				c.Violation("C10/counts-and-generated-names-in-one-call/item", fmt.Sprintf("%s; template %s", d, clipS(ref.Print(cs.Tpl))), cs)
				return
			}
			var m3, mw *ast.DataMessage
			o3 := real.Try(func() {
				m3 = ast.NewDataMessage("tmpl", 1, 1, 0, "H->E", tpl).FillVariables(all2)
				mw = ast.NewDataMessage("tmpl", 1, 1, 0, "H->E", g3)
			})
			if o3.Panicked {
				c.Violation("C10/counts-and-generated-names-in-one-call/message-refused", fmt.Sprintf("%s; template %s", o3, clipS(ref.Print(cs.Tpl))), cs)
				return
			}
			if d := real.Snap(m3).Diff(real.Snap(mw)); d != "" {
				c.Violation("C10/counts-and-generated-names-in-one-call/message", fmt.Sprintf("the fill through a message differs from the fill of its item: %s; template %s", d, clipS(ref.Print(cs.Tpl))), cs)
				return
			}
		}
		if c.WantSample() && nested && nfill >= 2 && len(real.Str(got)) < 400 {
			c.Sample(map[string]interface{}{"template": ref.Print(cs.Tpl), "template_variables": tplVars, "counts": cs.Counts, "result": real.Str(got), "result_variables": vars})
		}
		return
	}

	// two steps: expand some ellipses, then the (renumbered) rest
	c1 := map[string]int{}
	c2 := map[string]int{}
	for k, v := range cs.Counts {
		in1 := false
		for _, s := range cs.Step1 {
			if s == k {
				in1 = true
			}
		}
		if in1 {
			c1[k] = v
		} else {
			c2[k] = v
		}
	}
	var got1 ast.ItemNode
	if o := real.Try(func() { got1 = tpl.FillVariables(countsRaw(c1)) }); o.Panicked {
		c.Violation("C10/expansion-refused", fmt.Sprintf("step 1 %v: %s", c1, o), cs)
		return
	}
	want1 := ref.Expand(cs.Tpl, c1)
	any1 := false
	for _, v := range tplVars {
		if _, ok := c1[v]; ok {
			any1 = true
		}
	}
	if !c10Compare(c, cs, "two-step/first", got1, want1, any1) {
		return
	}
	// address the remaining ellipses by the names the implementation gave them
	realNames := ellipsisNames(got1.Variables())
	orig := renameEllipses(want1, realNames)
	if len(orig) != len(realNames) {
		c.Violation("C10/two-step/remaining-ellipsis-count", fmt.Sprintf("%d vs %d", len(orig), len(realNames)), cs)
		return
	}
	counts2 := map[string]int{}
	for i, o := range orig {
		if v, ok := c2[o]; ok {
			counts2[realNames[i]] = v
		}
	}
	var got2 ast.ItemNode
	if o := real.Try(func() { got2 = got1.FillVariables(countsRaw(counts2)) }); o.Panicked {
		c.Violation("C10/expansion-refused", fmt.Sprintf("step 2 %v: %s", counts2, o), cs)
		return
	}
	want2 := ref.Expand(want1, counts2)
	c.Class("two-step")
	c10Compare(c, cs, "two-step/second", got2, want2, len(counts2) > 0 || any1)
}

// ---- exhaustive enumeration of small templates

type shape struct {
	kind     byte // 'V' scalar with variable, 'K' constant scalar, 'S' ASCII variable with bounds, 'N' list variable, 'L' list
	before   []shape
	after    []shape
	ellipsis bool
}

func (s shape) cost() int {
	if s.kind != 'L' {
		return 1
	}
	n := 1
	for _, x := range s.before {
		n += x.cost()
	}
	for _, x := range s.after {
		n += x.cost()
	}
	return n
}

// seqs enumerates all sequences of items with total cost <= budget (possibly empty).
func seqs(budget, depth int, emit func([]shape)) {
	var rec func(left int, cur []shape)
	rec = func(left int, cur []shape) {
		emit(cur)
		if left <= 0 {
			return
		}
		for _, k := range []byte{'V', 'K', 'S', 'N'} {
			rec(left-1, append(cur[:len(cur):len(cur)], shape{kind: k}))
		}
		if depth > 0 && left >= 2 {
			lists(left, depth-1, func(l shape) {
				rec(left-l.cost(), append(cur[:len(cur):len(cur)], l))
			})
		}
	}
	rec(budget, nil)
}

// lists enumerates all list shapes with cost <= budget.
func lists(budget, depth int, emit func(shape)) {
	seqs(budget-1, depth, func(before []shape) {
		if len(before) == 0 {
			return
		}
		used := 1
		for _, x := range before {
			used += x.cost()
		}
		b := append([]shape(nil), before...)
		emit(shape{kind: 'L', before: b})
		seqs(budget-used, depth, func(after []shape) {
			emit(shape{kind: 'L', before: b, after: append([]shape(nil), after...), ellipsis: true})
		})
	})
}

func (s shape) build(nv *int, ne *int) *ref.Item {
	name := func() string { *nv++; return fmt.Sprintf("v%d", *nv-1) }
	switch s.kind {
	case 'V':
		if *nv%3 == 1 {
			return &ref.Item{Kind: ref.I2, Slots: []ref.Slot{{Int: -7}, {Var: name()}}}
		}
		return &ref.Item{Kind: ref.U1, Slots: []ref.Slot{{Var: name()}}}
	case 'K':
		return &ref.Item{Kind: ref.B, Slots: []ref.Slot{{Uint: 1}}}
	case 'S':
		return &ref.Item{Kind: ref.A, AVar: name(), AMin: 2, AMax: 5}
	case 'N':
		return &ref.Item{Var: name()}
	}
	it := &ref.Item{Kind: ref.L}
	for _, x := range s.before {
		it.Children = append(it.Children, x.build(nv, ne))
	}
	if s.ellipsis {
		it.Children = append(it.Children, &ref.Item{Var: fmt.Sprintf("...[%d]", *ne)})
		*ne++
	}
	for _, x := range s.after {
		it.Children = append(it.Children, x.build(nv, ne))
	}
	return it
}

func runC10(c *ctx) {
	if os.Getenv("VERIF_C10_PROBE") != "" {
		for _, bd := range [][2]int{{5, 2}, {6, 2}, {6, 3}, {7, 2}} {
			n, pairs := 0, 0
			lists(bd[0], bd[1], func(s shape) {
				n++
				nv, ne := 0, 0
				t := s.build(&nv, &ne)
				e := len(ellipsisNames(t.Vars()))
				p := 1
				for i := 0; i < e; i++ {
					p *= 5
				}
				pairs += p
			})
			fmt.Printf("budget %d depth %d: %d templates, %d (template,counts) pairs\n", bd[0], bd[1], n, pairs)
		}
		os.Exit(0)
	}
	budget, depth := c.pick(5, 6), c.pick(2, 3)
	countVals := []int{-1, 0, 1, 2, 3} // -1 = unfilled
	c.Rule = fmt.Sprintf("reference expander oracle. Exhaustive part: every list template of at most %d nodes and %d nesting levels over the item alphabet {scalar with variable, constant scalar, ASCII variable with bounds, list variable, nested list}, an ellipsis at any legal position or absent, x every count map over {unfilled,0,1,2,3}; plus for every template with >= 2 ellipses every two-step split. Random part: generated trees (depth <= 6, counts <= 12, results <= 50000 nodes), arbitrary distinct ellipsis numbers. Checked: String(), Size(), Variables() (ellipsis names by position; remaining names must be unique and '...'/'...[0]' or '...[0]'..'...[k-1]' in order), and that generated names can be filled individually and land in the right place. non-trivial = some ellipsis filled with n >= 1; distinct by (template, counts, split) Also (rounds 6-8): the second expansion reuses the map object of the first; counts and values for generated names in ONE call on the item and through a message; expansions that would generate a name written elsewhere are refused or leave every name once. Also (round 10): the same template object is expanded a second and third time with other counts and compared with the expansion of a fresh model.", budget, depth)
	c.Assume = []string{"reference expander internal/ref/fill.go (checked against the documented example on every run)", "counts >= 0", "templates use bracket-free base names so generated names cannot collide with existing ones"}

	var templates []*ref.Item
	lists(budget, depth, func(s shape) {
		nv, ne := 0, 0
		templates = append(templates, s.build(&nv, &ne))
	})
	c.Extra["exhaustive_templates"] = len(templates)
	c.Extra["exhaustive_bounds"] = map[string]int{"max_nodes": budget, "max_levels": depth + 1}
	c.parallel(len(templates), func(i int, r *rng.R) {
		tpl := templates[i]
		ell := ellipsisNames(tpl.Vars())
		if len(ell) == 1 && i%2 == 0 {
			// a single ellipsis may be called "..."
			renameEllipses(tpl, []string{"..."})
			ell = []string{"..."}
		}
		// all count maps
		total := 1
		for range ell {
			total *= len(countVals)
		}
		for code := 0; code < total; code++ {
			counts := map[string]int{}
			x := code
			for _, e := range ell {
				v := countVals[x%len(countVals)]
				x /= len(countVals)
				if v >= 0 {
					counts[e] = v
				}
			}
			c10Eval(c, c10Case{Tpl: tpl, Counts: counts})
			if len(counts) == 0 && len(ell) > 0 {
				// only a key that names none of the template's ellipses: ignored, nothing is renamed
				c10Eval(c, c10Case{Tpl: tpl, Counts: map[string]int{"...[77]": 1 + code%3}})
			}
			if len(counts) >= 2 {
				// every non-trivial split into a first and a second step
				var keys []string
				for k := range counts {
					keys = append(keys, k)
				}
				sort.Strings(keys)
				for mask := 1; mask < 1<<uint(len(keys))-1; mask++ {
					if !c.thorough && mask != 1 && mask != 1<<uint(len(keys))-2 && (code+mask)%3 != 0 {
						continue // quick tier: the first, the last and a third of the other splits
					}
					var s1 []string
					for b, k := range keys {
						if mask>>uint(b)&1 == 1 {
							s1 = append(s1, k)
						}
					}
					c10Eval(c, c10Case{Tpl: tpl, Counts: counts, Step1: s1})
				}
			}
		}
	})
	c.Exhaust = false // the random part is not exhaustive; the enumerated part is (see exhaustive_templates)

	// random part
	c.parallel(c.pick(8000, 200000), func(i int, r *rng.R) {
		g := gen.New(r, gen.Profile{MaxDepth: 1 + r.Intn(6), Vars: true, Ellipsis: true, PlainNames: true, Budget: 200, MaxKids: 4, MaxElems: 3})
		var tpl *ref.Item
		for try := 0; try < 20; try++ {
			tpl = g.Tree()
			if tpl.Kind == ref.L && len(ellipsisNames(tpl.Vars())) > 0 {
				break
			}
		}
		if tpl.Kind != ref.L {
			return
		}
		ell := ellipsisNames(tpl.Vars())
		counts := map[string]int{}
		for _, e := range ell {
			if r.Chance(3, 4) {
				if r.Chance(1, 10) {
					counts[e] = r.Intn(13)
				} else {
					counts[e] = r.Intn(4)
				}
			}
		}
		if r.Chance(1, 5) {
			counts["...[77]"] = 2 // names no ellipsis of the template: ignored
		}
		if expandedNodes(tpl, counts) > 50000 {
			return
		}
		c.Class("random-template")
		cs := c10Case{Tpl: tpl, Counts: counts}
		if len(counts) >= 2 && r.Bool() {
			for k := range counts {
				if r.Bool() {
					cs.Step1 = append(cs.Step1, k)
				}
			}
			sort.Strings(cs.Step1)
			if len(cs.Step1) == len(counts) {
				cs.Step1 = cs.Step1[:len(cs.Step1)-1]
			}
		}
		c10Eval(c, cs)
	})
	// many remaining ellipses (names with two-digit numbers) and large counts
	for _, n := range []int{8, 9, 10, 11, 12, 25, 100} {
		for _, tplText := range []int{0, 1, 2} {
			var tpl *ref.Item
			inner := func(name string) *ref.Item {
				return &ref.Item{Kind: ref.L, Children: []*ref.Item{{Kind: ref.U1, Slots: []ref.Slot{{Var: name}}}, {Var: "...[0]"}}}
			}
			switch tplText {
			case 0: // an unfilled ellipsis inside a group repeated n+1 times
				tpl = &ref.Item{Kind: ref.L, Children: []*ref.Item{inner("a"), {Var: "...[1]"}}}
			case 1: // the same with something after the outer ellipsis
				tpl = &ref.Item{Kind: ref.L, Children: []*ref.Item{inner("a"), {Var: "...[1]"}, {Kind: ref.A, AVar: "tail", AMin: 0, AMax: -1}}}
			default: // two levels of repetition around the unfilled one
				mid := &ref.Item{Kind: ref.L, Children: []*ref.Item{inner("a"), {Var: "...[1]"}}}
				tpl = &ref.Item{Kind: ref.L, Children: []*ref.Item{mid, {Var: "...[2]"}}}
			}
			counts := map[string]int{"...[1]": n}
			if tplText == 2 {
				counts = map[string]int{"...[1]": 3, "...[2]": n / 4}
			}
			c.Class("many-remaining-ellipses")
			c10Eval(c, c10Case{Tpl: tpl, Counts: counts})
			// and then the remaining ones are filled, each by the name it was given
			c10Eval(c, c10Case{Tpl: tpl, Counts: map[string]int{"...[1]": n, "...[0]": 1}, Step1: []string{"...[1]"}})
		}
	}
	// array-like names inside repeated groups (the generated names stay unique in these templates)
	for _, names := range [][2]string{{"a", "a[0]"}, {"p[1]", "p"}, {"q", "q[0][1]"}, {"k[2]", "k[3]"}} {
		for _, kind := range []int{0, 1, 2} {
			var grp *ref.Item
			switch kind {
			case 0: // both names in one array item
				grp = &ref.Item{Kind: ref.U1, Slots: []ref.Slot{{Var: names[0]}, {Var: names[1]}}}
			case 1: // in two items of a nested list
				grp = &ref.Item{Kind: ref.L, Children: []*ref.Item{{Kind: ref.I2, Slots: []ref.Slot{{Var: names[0]}}}, {Kind: ref.A, AVar: names[1], AMin: 0, AMax: -1}}}
			default: // a list variable and an array slot
				grp = &ref.Item{Kind: ref.L, Children: []*ref.Item{{Var: names[0]}, {Kind: ref.F4, Slots: []ref.Slot{{Uint: 0x3F800000}, {Var: names[1]}}}}}
			}
			tpl := &ref.Item{Kind: ref.L, Children: []*ref.Item{grp, {Var: "..."}}}
			for n := 0; n <= 3; n++ {
				want := ref.Expand(tpl, map[string]int{"...": n})
				if ref.EllipsisNamesOK(want.Vars(), false) != "" {
					continue // this count would make two names collide; not part of the quantified domain
				}
				c.Class("array-like-names-in-a-repeated-group")
				c10Eval(c, c10Case{Tpl: tpl, Counts: map[string]int{"...": n}})
			}
		}
	}
	// an expansion that would generate a name that is already written somewhere in the tree - in the same item, in a
	// sibling, across a list boundary in either direction - never yields a tree with that name twice
	{
		u := func(names ...string) *ref.Item {
			it := &ref.Item{Kind: ref.U1}
			for _, n := range names {
				it.Slots = append(it.Slots, ref.Slot{Var: n})
			}
			return it
		}
		l := func(ch ...*ref.Item) *ref.Item { return &ref.Item{Kind: ref.L, Children: ch} }
		e := func(name string) *ref.Item { return &ref.Item{Var: name} }
		clashes := []*ref.Item{
			l(l(u("p"), e("...")), u("p[1]")),                       // generated in a sub-list, written in the parent
			l(u("p[1]"), l(u("p"), e("..."))),                       // written before the sub-list
			l(l(u("p[0]")), l(u("p"), e("..."))),                    // written in a sibling sub-list
			l(l(l(u("q"), e("...[0]")), u("q[1][0]"), e("...[1]"))), // nested: q[j][i] against a written q[1][0]
			l(u("k"), u("k[2]"), e("...")),                          // two items of the repeated group itself
			l(l(u("r"), e("...[0]")), l(u("r"), u("r[0]"), e("...[1]"))),
			l(e("lv"), e("..."), u("lv[1]")), // a list variable repeated, its generated name written after the ellipsis
			l(&ref.Item{Kind: ref.A, AVar: "s", AMin: 0, AMax: -1}, e("..."), l(u("s[2]"))),
		}
		for _, tpl := range clashes {
			for n := 1; n <= 3; n++ {
				counts := map[string]interface{}{}
				for _, v := range tpl.Vars() {
					if ref.IsEllipsisName(v) {
						counts[v] = n
					}
				}
				var node, got ast.ItemNode
				if o := real.Try(func() { node = real.Build(tpl) }); o.Panicked {
					continue
				}
				o := real.Try(func() { got = node.FillVariables(counts) })
				c.NoteBulk(1, 1)
				c.Class("colliding-expansion")
				if o.Panicked {
					c.Class("colliding-expansion/refused")
					continue
				}
				seen := map[string]bool{}
				for _, v := range got.Variables() {
					if seen[v] {
						c.Violation("C10/duplicate-name-after-expansion", fmt.Sprintf("template %s expanded with %d: Variables() = %q holds %q twice", clipS(ref.Print(tpl)), n, got.Variables(), v), c10Case{Tpl: tpl, Counts: map[string]int{"...": n}})
						break
					}
					seen[v] = true
				}
			}
		}
	}
	// a fill that is refused half-way (a generated name collides with an existing one) must leave no trace: the next
	// expansion anywhere in the process comes out as usual
	for rep := 0; rep < 3; rep++ {
		inner := &ref.Item{Kind: ref.L, Children: []*ref.Item{{Kind: ref.U1, Slots: []ref.Slot{{Var: "a"}}}, {Var: "...[0]"}}}
		clash := &ref.Item{Kind: ref.L, Children: []*ref.Item{{Kind: ref.L, Children: []*ref.Item{inner, {Kind: ref.U1, Slots: []ref.Slot{{Var: "a[0]"}}}}}, {Var: "...[1]"}}}
		real.Try(func() { real.Build(clash).FillVariables(map[string]interface{}{"...[0]": 1 + rep, "...[1]": 1}) })
		probe := &ref.Item{Kind: ref.L, Children: []*ref.Item{{Kind: ref.U1, Slots: []ref.Slot{{Var: "x"}}}, {Var: "..."}}}
		c.Class("expansion-after-a-refused-fill")
		c10Eval(c, c10Case{Tpl: probe, Counts: map[string]int{"...": 1 + rep}})
	}
	c.Required = []string{"second-expansion-of-one-template-with-other-counts", "colliding-expansion/refused", "array-like-names-in-a-repeated-group", "expansion-after-a-refused-fill", "many-remaining-ellipses", "one-step", "two-step", "individual-fill", "counts-and-generated-names-in-one-call", "random-template", "nothing-to-expand"}
}

func replayC10(c *ctx, raw json.RawMessage) {
	var cs c10Case
	if json.Unmarshal(raw, &cs) == nil && cs.Tpl != nil {
		c10Eval(c, cs)
	}
}
