package main

import (
	"encoding/json"
	"fmt"
	"strings"
	"unicode/utf8"

	"verifharness/internal/gen"
	"verifharness/internal/real"
	"verifharness/internal/ref"
	"verifharness/internal/rng"
	"verifharness/internal/smltext"
)

// C19 — messages in one SML text are parsed independently.

type c19Case struct {
	Parts []string `json:"parts"`
	Seps  []string `json:"separators"` // Seps[i] follows Parts[i] (last one may be empty)
}

func init() { register("C19", "exploration", runC19, replayC19) }

func endPos(s string) smltext.Pos {
	line, col := 1, 1
	for len(s) > 0 {
		r, n := utf8.DecodeRuneInString(s)
		s = s[n:]
		if r == '\n' {
			line++
			col = 1
		} else {
			col++
		}
	}
	return smltext.Pos{Line: line, Col: col}
}

func shift(p, start smltext.Pos) smltext.Pos {
	if p.Line == 1 {
		return smltext.Pos{Line: start.Line, Col: start.Col + p.Col - 1}
	}
	return smltext.Pos{Line: start.Line + p.Line - 1, Col: p.Col}
}

func c19Eval(c *ctx, cs c19Case) {
	var whole strings.Builder
	var wantMsgs []real.MsgSnap
	var wantWarns []string
	shared := false
	seenVar := map[string]bool{}
	ellParts := 0
	for i, part := range cs.Parts {
		start := endPos(whole.String())
		msgs, errs, warns, o := smlParse(part)
		if o.Panicked || len(errs) > 0 {
			c.Class("part-not-accepted(skipped)")
			c.Eval(1)
			return
		}
		hasEll := false
		for _, m := range msgs {
			wantMsgs = append(wantMsgs, real.Snap(m))
			for _, v := range m.Variables() {
				if ref.IsEllipsisName(v) {
					hasEll = true
				} else if seenVar[v] {
					shared = true
				}
			}
		}
		for _, m := range msgs {
			for _, v := range m.Variables() {
				seenVar[v] = true
			}
		}
		if hasEll {
			ellParts++
		}
		for _, w := range warns {
			p, t, ok := smltext.ParseDiag(w)
			if !ok {
				c.Violation("C19/diagnostic-format", w, cs)
				return
			}
			q := shift(p, start)
			wantWarns = append(wantWarns, fmt.Sprintf("Ln %d, Col %d: %s", q.Line, q.Col, t))
		}
		whole.WriteString(part)
		if i < len(cs.Seps) {
			whole.WriteString(cs.Seps[i])
		}
	}
	text := whole.String()
	c.Note(rng.HashStr(text), len(cs.Parts) >= 2 && (shared || ellParts >= 2))
	c.Class(fmt.Sprintf("parts=%d", len(cs.Parts)))
	if shared {
		c.Class("shared-variable-names")
	}
	if ellParts >= 2 {
		c.Class("ellipses-in-several-parts")
	}
	if len(wantWarns) > 0 {
		c.Class("with-warnings")
	}
	msgs, errs, warns, o := smlParse(text)
	if o.Panicked {
		c.Violation("C19/parser-panicked", o.String(), cs)
		return
	}
	if len(errs) > 0 {
		c.Violation("C19/concatenation-rejected", fmt.Sprintf("each part is accepted alone; together: %q\n--- text %q", errs, clipS(text)), cs)
		return
	}
	if len(msgs) != len(wantMsgs) {
		c.Violation("C19/message-count", fmt.Sprintf("%d messages, the parts alone give %d\n--- text %q", len(msgs), len(wantMsgs), clipS(text)), cs)
		return
	}
	for i, m := range msgs {
		if d := real.Snap(m).Diff(wantMsgs[i]); d != "" {
			c.Violation("C19/message-differs-from-parsing-alone", fmt.Sprintf("message %d: %s\n--- text %q", i, d, clipS(text)), cs)
			return
		}
	}
	if !real.EqStrs(warns, wantWarns) {
		c.Violation("C19/warnings-differ", fmt.Sprintf("%q, the parts alone (shifted) give %q\n--- text %q", warns, wantWarns, clipS(text)), cs)
		return
	}
	if c.WantSample() && shared && len(text) < 260 {
		c.Sample(map[string]interface{}{"parts": cs.Parts, "separators": cs.Seps, "messages": len(msgs), "warnings": warns})
	}
}

var c19Seps = []string{"", " ", "\n", "\r\n", "\t\n  ", " // c\n", "\n// comment line\n", "  \t", "\n\n\n", " //x\r\n\t",
	// a comment runs to the line feed whatever it contains: message-like text after a lone CR, form feed, vertical tab,
	// NEL, U+2028/U+2029, quotes, brackets, terminators
	" // note\rS9F9 H->E Ghost .\n", "// see\rbelow\n", " //\r.\n", "\n// a\r\r<L>\n", " // x\fS9F9 W .\n", " // x\vS9F9 W .\n",
	" // x\u0085S9F9 W .\n", " // x\u2028S9F9 W .\u2029 <L> .\n", " // \" unbalanced quote . S9F9 W .\n", " // ' . > < [ ] S9F9\r\n", " //// . //\n"}

func runC19(c *ctx) {
	c.Rule = "sequences of 2-4 accepted texts (each 1-2 messages in varied literal forms and layouts, ending in the terminator optionally followed by blanks or line-terminated comments) joined by every separator the grammar allows after a terminator (nothing, blanks, line breaks, CRLF, comments); deliberately reused variable names, ellipses in several parts, missing directions (warnings), item-less messages followed by messages that start with every header token kind. Oracle: the concatenation is accepted, its messages equal the concatenation of the messages of the parts parsed alone (all observers, Variables() verbatim), its warnings equal the parts' warnings shifted by each part's start position. non-trivial = at least two parts that share a variable name or both contain an ellipsis; distinct by text Also (rounds 4-8): separator comments with message-like text after CR/FF/VT/NEL/U+2028; the same literal under different item types in consecutive messages; 254..513 (thorough 66000) messages in one text; digit-suffixed names in every message; thousands of warnings; characters whose case mapping changes their byte length."
	c.Assume = []string{"a part never ends in an unterminated // comment (that would comment out the start of the next part, which is what a line comment is)"}
	n := c.pick(25000, 600000)
	c.parallel(n, func(i int, r *rng.R) {
		k := 2 + r.Intn(3)
		cs := c19Case{}
		// a small shared name pool so that names repeat across parts
		for j := 0; j < k; j++ {
			g := gen.New(r.Derive(uint64(i%7)), gen.Profile{MaxDepth: 1 + r.Intn(3), Vars: true, Ellipsis: i%2 == 0, PlainNames: i%3 == 0, Budget: 80, MaxKids: 3, MaxElems: 3})
			if i%5 == 1 {
				// same generator stream for every part: identical variable names and ellipses
				g = gen.New(rng.New(uint64(i)), gen.Profile{MaxDepth: 2, Vars: true, Ellipsis: true, Budget: 60, MaxKids: 3, MaxElems: 3})
			}
			var toks []smltext.Tok
			for q := 1 + r.Intn(2); q > 0; q-- {
				var it *ref.Item
				if !r.Chance(1, 5) {
					it = g.Tree()
				}
				m := g.Msg(it, false)
				if r.Chance(1, 3) {
					m.Dir = ""
				}
				if r.Chance(1, 3) {
					m.Name = ""
				}
				st := &smltext.NumStyle{R: r, Variety: r.Bool()}
				toks = append(toks, smltext.MsgToks(st, m, r.Bool())...)
			}
			lead, gaps, _ := smltext.Layout(r, toks, smltext.LayoutOpts{AddOptional: true, Comments: r.Chance(1, 3)})
			cs.Parts = append(cs.Parts, smltext.Render(toks, lead, gaps, smltext.CaseSpelling(r, toks)).Text)
			cs.Seps = append(cs.Seps, c19Seps[r.Intn(len(c19Seps))])
		}
		c19Eval(c, cs)
	})
	// item-less message followed by a message starting with every header token kind
	heads := []string{"S2F2 .", "S2F1 W .", "S2F2 [W] H->E .", "S2F2 H<-E Name .", "S2F2 Name .", "S2F2 <L> .", "s2f2\n.", "S2F2 H<->E <U1 x> ."}
	for _, a := range []string{"S1F1 .", "S1F1 W .", "S1F1 W H->E .", "S1F1 H->E Name .", "S1F1 Name .", "S1F1 <L x ...> .", "S1F1 W <A[2..3] x> ."} {
		for _, b := range heads {
			for _, sep := range c19Seps {
				c.Class("header-kind-pairs")
				c19Eval(c, c19Case{Parts: []string{a, b}, Seps: []string{sep, ""}})
				c19Eval(c, c19Case{Parts: []string{a, b, a}, Seps: []string{sep, sep, "\n"}})
			}
		}
	}
	// spellings at the edge of the grammar (accepted or not, the same alone and in a sequence)
	edge := []string{"S1F1 H->E Name.", "S1F1 W Name.", "S1F1 Name.\n", "\ufeffS1F1 W .", "\ufeffS1F1 H->E <L> .\n", "S1F1 W H->E n <L>.", "S1F1 W.", "S1F1.", "S1F1 W <U1 1>.S"}
	plain := []string{"S2F2 .", "S2F1 W H<-E <U1 2> .", "S2F2 H->E other <L> .", "s2f2 <B 1>."}
	for _, a := range edge {
		for _, b := range plain {
			for _, sep := range []string{"", " ", "\n", " // c\n"} {
				c.Class("edge-spellings")
				c19Eval(c, c19Case{Parts: []string{a, b}, Seps: []string{sep, ""}})
				c19Eval(c, c19Case{Parts: []string{b, a}, Seps: []string{sep, ""}})
				c19Eval(c, c19Case{Parts: []string{b, a, b}, Seps: []string{sep, sep, ""}})
			}
		}
	}
	// the same literal, spelled alike, in items of different types in consecutive messages (nothing learnt about a
	// spelling in one message may be used in the next)
	{
		lits := []string{"0.1", "1e-3", "16777217", "3.4028235e38", "1e39", "255", "256", "-1", "0x10", "0b1", "1", "0", "-0", "2.5", "1e2", "65535", "65536", "4294967295", "127", "128", "-128", "0x7F", "0xFF", "T", "F"}
		types := []string{"F4", "F8", "U1", "U2", "U4", "U8", "I1", "I2", "I8", "B", "BOOLEAN"}
		for _, lit := range lits {
			for _, t1 := range types {
				for _, t2 := range types {
					if t1 == t2 {
						continue
					}
					a := "S1F1 W H->E <" + t1 + " " + lit + " " + lit + "> ."
					b := "S1F2 H<-E <" + t2 + " " + lit + "> ."
					c.Class("same-literal-other-type")
					c19Eval(c, c19Case{Parts: []string{a, b}, Seps: []string{"\n", ""}})
					c19Eval(c, c19Case{Parts: []string{a, "S9F9 W .", b, a}, Seps: []string{" ", "\n", "", ""}})
				}
			}
		}
	}
	// long sequences: a name used in every message, and names that come back after 255, 256, 257 messages (per-message
	// bookkeeping must not be a small counter)
	for _, n := range []int{254, 255, 256, 257, 258, 300, 511, 513, c.pick(600, 66000)} {
		var parts, seps []string
		for i := 0; i < n; i++ {
			switch {
			case i%255 == 3:
				parts = append(parts, fmt.Sprintf("S1F1 W H->E m%d <L <U1 again> <A back> <L recur ...>> .", i))
			case i%2 == 0:
				parts = append(parts, "S1F1 W H->E <L <U1 every> <A[0..5] other>> .")
			default:
				parts = append(parts, fmt.Sprintf("S2F%d <L <I2 every> nn%d> .", 2*(i%100), i))
			}
			seps = append(seps, []string{"\n", " ", "", " // c\n"}[i%4])
		}
		c.Class("hundreds-of-messages")
		c19Eval(c, c19Case{Parts: parts, Seps: seps})
	}
	// thousands of messages that each draw a warning (no direction), and thousands of errors in the last part only:
	// every message of every part comes back, however many diagnostics there are
	for _, n := range []int{1500, 2500, c.pick(4200, 9000)} {
		warned := strings.Repeat("S1F1 W .\n", n)
		c.Class("thousands-of-warnings")
		c19Eval(c, c19Case{Parts: []string{warned, warned}, Seps: []string{"", ""}})
		c19Eval(c, c19Case{Parts: []string{warned, "S2F1 W H->E last <U1 1> .", warned}, Seps: []string{"\n", "\n", ""}})
	}
	// characters whose upper or lower case has another byte length, in a comment, in a message name, in a string of
	// an earlier part (what follows is read at the offsets of the text as written)
	for _, ch := range []string{"\u0131", "\u017f", "\u0250", "\u0251", "\u2c65", "\u2c66", "\u023f", "\u0240", "\u026b", "\u1e9e", "\u0149", "\u01f0", "\u0390", "\ufb01", "\u212a", "\u2126", "\u0130"} {
		first := []string{
			"S1F1 W H->E <L <U1 1>> . // kap" + ch + " kilidi",
			"S1F1 W H->E na" + ch + "me .",
			"S1F1 H->E " + ch + " <L> . // " + ch + ch + ch,
			"// " + ch + "\nS1F1 W .",
		}
		for _, a := range first {
			for _, b := range []string{"S12F7 W\n.", "S12F7 W H->E <L <A \"x\"> <U2 513>> .", "s3f5 w h<-e <boolean t f> ."} {
				c.Class("case-mapping-changes-byte-length")
				c19Eval(c, c19Case{Parts: []string{a, b}, Seps: []string{"\n", ""}})
				c19Eval(c, c19Case{Parts: []string{a, a, b}, Seps: []string{"\n", "\n", "\n"}})
			}
		}
	}
	// every message uses a name and the same name with digits appended (q, q0..q12, q100): names are scoped by
	// message, not by any spelling that glues a message number to them
	for _, n := range []int{12, 25, 40, 120} {
		var parts, seps []string
		for i := 0; i < n; i++ {
			var sb strings.Builder
			fmt.Fprintf(&sb, "S1F%d H->E <L <U1 q> <I2 q100> <A q_>", 2*(i%100)+1)
			for d := 0; d <= 12; d++ {
				fmt.Fprintf(&sb, " <U2 q%d>", d)
			}
			sb.WriteString(" lot lot1 lot11 lot2> .")
			parts = append(parts, sb.String())
			seps = append(seps, []string{"\n", " ", ""}[i%3])
		}
		c.Class("digit-suffixed-names-in-every-message")
		c19Eval(c, c19Case{Parts: parts, Seps: seps})
	}
	// a message with exactly n variables, then messages that reuse each of its names in every kind of place
	for n := 1; n <= 20; n++ {
		var sb strings.Builder
		sb.WriteString("S1F1 W H->E <L")
		for i := 0; i < n; i++ {
			switch i % 4 {
			case 0:
				fmt.Fprintf(&sb, " <U1 n%d>", i)
			case 1:
				fmt.Fprintf(&sb, " n%d", i)
			case 2:
				fmt.Fprintf(&sb, " <A n%d>", i)
			default:
				fmt.Fprintf(&sb, " <BOOLEAN T n%d>", i)
			}
		}
		sb.WriteString("> .")
		first := sb.String()
		for i := 0; i < n; i += 1 + n/6 {
			name := fmt.Sprintf("n%d", i)
			for _, second := range []string{
				"S1F2 H<-E <L " + name + " <U1 w>> .", "S1F2 H<-E <U2 " + name + "> .", "S1F2 H<-E <A[1..4] " + name + "> .",
				"S1F2 H<-E <L <L <F4 " + name + ">> ...> .", "S1F2 <B " + name + " 1> .",
			} {
				for _, sep := range []string{"", "\n", " // c\n"} {
					c.Class("n-variables-then-reuse")
					c19Eval(c, c19Case{Parts: []string{first, second}, Seps: []string{sep, ""}})
					c19Eval(c, c19Case{Parts: []string{first, "S9F9 W .", second}, Seps: []string{sep, sep, ""}})
				}
			}
		}
	}
	c.Required = []string{"edge-spellings", "n-variables-then-reuse", "parts=2", "parts=3", "parts=4", "shared-variable-names", "ellipses-in-several-parts", "with-warnings", "header-kind-pairs", "same-literal-other-type", "hundreds-of-messages", "parts=257", "parts=300", "parts=40", "parts=120", "digit-suffixed-names-in-every-message", "thousands-of-warnings", "case-mapping-changes-byte-length", "parts=3"}
}

func replayC19(c *ctx, raw json.RawMessage) {
	var cs c19Case
	if json.Unmarshal(raw, &cs) == nil && len(cs.Parts) > 0 {
		c19Eval(c, cs)
	}
}
