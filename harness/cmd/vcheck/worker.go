package main

import (
	"fmt"
	"github.com/wolimst/lib-secs2-hsms-go/pkg/ast"
	"os"
	"runtime"
	"runtime/debug"
	"strconv"
	"strings"
	"sync"

	"verifharness/internal/iso"

	"github.com/wolimst/lib-secs2-hsms-go/pkg/parser/hsms"
)

// C07 linear allocation bound: 1 MiB + 2048 bytes per input byte.
const c07Const = 1 << 20
const c07PerByte = 2048

// workerMain is the entry point of a child worker process.
//
//	vcheck -worker hsms [maxstack=<bytes>] <batch> <progress> <result>
//	vcheck -worker sml  [maxstack=<bytes>] <batch> <progress> <result>
//	vcheck -worker canary-oom|canary-spin ...   (isolation-layer self tests)
func workerMain(kind string, args []string) {
	for _, a := range args {
		if len(a) > 9 && a[:9] == "maxstack=" {
			if n, err := strconv.Atoi(a[9:]); err == nil && n > 0 {
				debug.SetMaxStack(n)
			}
		}
	}
	w, err := iso.OpenWorker(args)
	if err != nil {
		fmt.Fprintln(os.Stderr, "worker:", err)
		os.Exit(3)
	}
	switch kind {
	case "hsms":
		hsmsWorker(w)
	case "sml":
		smlWorker(w)
	case "canary-oom":
		w.Begin(0)
		var keep [][]byte
		for i := 0; i < 64; i++ {
			b := make([]byte, 1<<30)
			for j := 0; j < len(b); j += 4096 {
				b[j] = 1
			}
			keep = append(keep, b)
		}
		fmt.Println(len(keep))
	case "canary-spin":
		w.Begin(0)
		for {
			runtime.Gosched()
		}
	default:
		fmt.Fprintln(os.Stderr, "worker: unknown kind", kind)
		os.Exit(3)
	}
	w.Finish()
}

func hsmsWorker(w *iso.Worker) {
	var m0, m1 runtime.MemStats
	var stale []byte // one receive buffer reused for the "spare capacity" presentation
	var steps struct {
		items    int64
		exceeded bool
		seen     bool
	}
	hsms.VerifHook = func(inputLen int, items int64, exceeded bool) {
		steps.items, steps.exceeded, steps.seen = items, exceeded, true
	}
	ast.VerifCountListWalks = true // hook H4: this worker is single-goroutine
	// what the decoder keeps reachable between calls is measured over the whole batch (the batch is loaded already)
	runtime.GC()
	runtime.GC()
	runtime.ReadMemStats(&m0)
	heapBefore := m0.HeapAlloc
	maxIn := 0
	defer func() {
		runtime.GC()
		runtime.GC()
		runtime.ReadMemStats(&m1)
		grown := int64(m1.HeapAlloc) - int64(heapBefore)
		if stale != nil {
			grown -= int64(len(stale))
		}
		w.Max("retained_heap_growth_MiB_over_the_batch", float64(grown)/(1<<20))
		if limit := int64(32<<20) + 2*int64(maxIn); grown > limit && len(w.Jobs) > 0 {
			w.Report(iso.Finding{Index: len(w.Jobs) - 1, Sig: "C07/memory-retained-across-calls", What: fmt.Sprintf("after %d calls and two collections the live heap is %d MiB larger than before the first call (limit 32 MiB + 2 x the longest input, %d bytes): what earlier calls allocated stays reachable", len(w.Jobs), grown>>20, maxIn), Family: w.Jobs[len(w.Jobs)-1].Family})
		}
	}()
	for i, j := range w.Jobs {
		w.Begin(i)
		if j.Family == "concurrent-batch" {
			// frames (each with its 4-byte length, concatenated) decoded at the same moment from as many goroutines: every
			// call returns normally and what it returns alone; the hooks are single-goroutine and switched off meanwhile
			var frames [][]byte
			for rest := j.Input; len(rest) >= 4; {
				n := 4 + int(rest[0])<<24 + int(rest[1])<<16 + int(rest[2])<<8 + int(rest[3])
				if n > len(rest) {
					n = len(rest)
				}
				frames = append(frames, rest[:n:n])
				rest = rest[n:]
			}
			ast.VerifCountListWalks = false
			hook := hsms.VerifHook
			hsms.VerifHook = nil
			summ := func(b []byte) (out string) {
				defer func() {
					if r := recover(); r != nil {
						out = "panic: " + fmt.Sprint(r)
					}
				}()
				m, ok := hsms.Parse(b)
				if !ok {
					return "not ok"
				}
				return m.Type() + " " + string(m.ToBytes())
			}
			together := make([]string, len(frames))
			var wg sync.WaitGroup
			start := make(chan struct{})
			for k := range frames {
				wg.Add(1)
				go func(k int) {
					defer wg.Done()
					<-start
					// many repetitions: on a loaded machine the goroutines of one batch overlap only now and then
					for rep := 0; rep < 600; rep++ {
						together[k] = summ(frames[k])
					}
				}(k)
			}
			close(start)
			wg.Wait()
			for k := range frames {
				if alone := summ(frames[k]); alone != together[k] || strings.HasPrefix(alone, "panic: ") {
					w.Report(iso.Finding{Index: i, Sig: "C07/result-differs-when-other-calls-are-in-flight", What: fmt.Sprintf("frame %x decoded while %d other Parse calls were running gave %.80q, alone it gives %.80q", clipB(frames[k]), len(frames)-1, together[k], alone), Family: j.Family})
					break
				}
			}
			hsms.VerifHook = hook
			ast.VerifCountListWalks = true
			w.Classes["family/"+j.Family]++
			w.End(i)
			continue
		}
		in := j.Input
		if len(in) > maxIn {
			maxIn = len(in)
		}
		ast.VerifListWalks = 0
		ast.VerifListWalkBudget = listWalkBudget(len(in))
		if i%4 == 1 && len(in) <= 4096 {
			// every fourth small input is the front of a large receive buffer that holds stale data:
			// what is allocated must depend on the length of the slice, not on its capacity
			if stale == nil {
				stale = make([]byte, 4<<20)
				for k := range stale {
					stale[k] = 0x01
				}
			}
			copy(stale, in)
			in = stale[:len(in)]
			w.Classes["presented-with-4MiB-spare-capacity"]++
		}
		escaped := ""
		ok := false
		steps.seen, steps.exceeded, steps.items = false, false, 0
		runtime.ReadMemStats(&m0)
		func() {
			defer func() {
				if r := recover(); r != nil {
					escaped = fmt.Sprint(r)
				}
			}()
			_, ok = hsms.Parse(in)
		}()
		runtime.ReadMemStats(&m1)
		delta := m1.TotalAlloc - m0.TotalAlloc
		bound := uint64(c07Const + c07PerByte*len(in))
		w.Classes["family/"+j.Family]++
		if ok {
			w.Classes["accepted"]++
		} else {
			w.Classes["rejected"]++
		}
		ratio := float64(delta) / float64(len(in)+1)
		w.Max("alloc_bytes_per_input_byte/"+j.Family, ratio)
		w.Max("alloc_over_bound/"+j.Family, float64(delta)/float64(bound))
		if escaped != "" {
			w.Report(iso.Finding{Index: i, Sig: "C07/panic-escaped", What: "panic escaped hsms.Parse: " + escaped, Family: j.Family})
		}
		// hook H3: the decoder looks at an item at most once per two input bytes; more item steps than input bytes
		// witness a loop that does not consume input (decided on logical steps, not on wall-clock time)
		if steps.seen {
			w.Classes["hook-H3-reached"]++
			w.Max("decoder_item_steps_per_input_byte", float64(steps.items)/float64(len(in)+1))
			if steps.exceeded {
				w.Report(iso.Finding{Index: i, Sig: "C07/step-budget-exceeded", What: fmt.Sprintf("the decoder took %d item steps for a %d-byte input (budget len+2)", steps.items, len(in)), Family: j.Family})
			}
		} else {
			w.Classes["hook-H3-not-reached"]++
		}
		w.Max("ast_list_walks_per_len2", float64(ast.VerifListWalks)/float64((len(in)+8)*(len(in)+8)))
		if ast.VerifListWalks > ast.VerifListWalkBudget {
			w.Report(iso.Finding{Index: i, Sig: "C07/list-walk-budget-exceeded", What: fmt.Sprintf("more than %d list walks in package ast for a %d-byte input (budget 100000 + 2*len^2)", ast.VerifListWalkBudget, len(in)), Family: j.Family})
		}
		if delta > bound {
			w.Report(iso.Finding{Index: i, Sig: "C07/alloc-superlinear/" + j.Family,
				What: fmt.Sprintf("TotalAlloc delta %d bytes for a %d-byte input (bound %d = 1MiB+2048*len)", delta, len(in), bound), Family: j.Family})
		}
		w.End(i)
	}
}
