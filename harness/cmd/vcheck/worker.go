package main

func workerMain(kind string, args []string) {}
