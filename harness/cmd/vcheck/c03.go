package main

import (
	"bytes"
	"encoding/hex"
	"encoding/json"
	"fmt"
	"math"

	"verifharness/internal/gen"
	"verifharness/internal/real"
	"verifharness/internal/ref"
	"verifharness/internal/rng"

	"github.com/wolimst/lib-secs2-hsms-go/pkg/ast"
	"github.com/wolimst/lib-secs2-hsms-go/pkg/parser/hsms"
)

// C03 — the decoder accepts exactly the well-formed messages and decodes
// them exactly (strict reference decoder oracle, single-point fault enumeration).

type c03Case struct {
	Hex   string `json:"hex"`
	Fault string `json:"fault"`
}

func init() { register("C03", "fault_enumeration", runC03, replayC03) }

// c03Eval compares hsms.Parse with the reference decoder on one byte string.
func c03Eval(c *ctx, b []byte, fault string, nontrivial bool) {
	d, acc := ref.Decode(b)
	exact := make([]byte, len(b))
	copy(exact, b)
	msg, ok, o := hsmsParse(exact)
	c.Note(rng.Hash64(b), nontrivial)
	// the same bytes presented as the prefix of a larger buffer that holds
	// plausible stale data (as a network read buffer would): the result must
	// not depend on what lies beyond the slice length
	slack := make([]byte, len(b), len(b)+len(staleTail))
	copy(slack, b)
	copy(slack[len(b):cap(slack)], staleTail)
	msg2, ok2, o2 := hsmsParse(slack)
	if ok2 != ok || o2.Panicked != o.Panicked || (ok && ok2 && !bytes.Equal(msg.ToBytes(), msg2.ToBytes())) {
		c.Violation("C03/result-depends-on-bytes-beyond-the-slice", fmt.Sprintf("hsms.Parse(%x): ok=%v with exact capacity, ok=%v when stale buffer data follows the slice", clipB(b), ok, ok2), c03Case{Hex: hex.EncodeToString(b), Fault: fault})
	}
	if acc {
		c.Class("ref-accepts/" + fault)
	} else {
		c.Class("ref-rejects/" + fault)
	}
	cs := func() c03Case { return c03Case{Hex: hex.EncodeToString(b), Fault: fault} }
	if o.Panicked {
		c.Violation("C03/panic-escaped", o.String(), cs())
		return
	}
	if acc != ok {
		if ok {
			c.Violation("C03/accepts-malformed/"+d.Why, fmt.Sprintf("hsms.Parse accepted %x (%s; fault %s)", clipB(b), d.Why, fault), cs())
		} else {
			feat := "control"
			if !d.Control {
				feat = featureSig(d.Msg.Item) + nonMinimalSig(b)
			}
			c.Violation("C03/rejects-well-formed/"+feat, fmt.Sprintf("hsms.Parse rejected well-formed %x (fault %s)", clipB(b), fault), cs())
		}
		return
	}
	if !acc {
		return
	}
	// the decoder's caller owns the buffer: reusing it for the next frame must not change the message just returned
	before := append([]byte(nil), msg.ToBytes()...)
	typeBefore := msg.Type()
	for i := range exact {
		exact[i] ^= 0x5A
	}
	if !bytes.Equal(msg.ToBytes(), before) || msg.Type() != typeBefore {
		c.Violation("C03/returned-message-changes-with-the-input-buffer", fmt.Sprintf("after the input buffer of %x was overwritten the message encodes to %x (was %x), type %s (was %s)", clipB(b), clipB(msg.ToBytes()), clipB(before), msg.Type(), typeBefore), c03Case{Hex: hex.EncodeToString(b), Fault: fault})
		return
	}
	if d.Control {
		wantType := ref.ControlType(d.Header[4], d.Header[5])
		if msg.Type() != wantType || !bytes.Equal(msg.ToBytes(), b) {
			c.Violation("C03/control-decoded-wrong", fmt.Sprintf("Type()=%s want %s, ToBytes()=%x input=%x", msg.Type(), wantType, msg.ToBytes(), b), cs())
		}
		return
	}
	dm, isData := msg.(*ast.DataMessage)
	if !isData {
		c.Violation("C03/data-decoded-as-control", fmt.Sprintf("%T", msg), cs())
		return
	}
	m := d.Msg
	canon := ref.EncodeMessage(m)
	s := real.Snap(dm)
	wantW := "false"
	if m.W == 1 {
		wantW = "true"
	}
	diff := ""
	switch {
	case s.Type != "data message":
		diff = "Type " + s.Type
	case s.Stream != m.Stream || s.Function != m.Function || s.WaitBit != wantW:
		diff = fmt.Sprintf("S%dF%d W=%s want S%dF%d W=%s", s.Stream, s.Function, s.WaitBit, m.Stream, m.Function, wantW)
	case s.Session != m.Session:
		diff = fmt.Sprintf("session %d want %d", s.Session, m.Session)
	case s.Sys != fmt.Sprintf("%x", m.Sys[:]):
		diff = fmt.Sprintf("system bytes %s want %x", s.Sys, m.Sys[:])
	case s.Bytes != string(canon):
		diff = fmt.Sprintf("ToBytes()=%x canonical=%x", clipB([]byte(s.Bytes)), clipB(canon))
	}
	if diff == "" && m.Item != nil && len(canon) < 4096 {
		if dd := ref.MatchPrinted(itemPart(s.Str), ref.PrintSegs(m.Item)); dd != "" {
			diff = dd
		}
	}
	if diff != "" {
		c.Violation("C03/decoded-value-differs/"+featureSig(m.Item)+nonMinimalSig(b), diff+fmt.Sprintf(" input=%x", clipB(b)), cs())
	}
}

func nonMinimalSig(b []byte) string {
	if len(b) >= 14 {
		if _, ok := ref.Decode(b); ok {
			d, _ := ref.Decode(b)
			if !d.Control && !bytes.Equal(ref.EncodeMessage(d.Msg), b) {
				return "+noncanonical"
			}
		}
	}
	return ""
}

// stale data beyond the slice length: well-formed item fragments
var staleTail = bytes.Repeat([]byte{0x01, 0x01, 0x21, 0x01, 0x00, 0x41, 0x02, 0x41, 0x42, 0xA5, 0x01, 0x07}, 24)

var payloadFaultVals = []byte{0x00, 0x01, 0x7F, 0x80, 0xFF}

// c03Faults enumerates every single-point fault of one seed encoding.
func c03Faults(c *ctx, seed []byte, roles []ref.Role) {
	faultList(seed, roles, func(b []byte, fault string) { c03Eval(c, b, fault, true) })
}

// faultList enumerates every single-point fault of a seed encoding (shared by C03 and C07).
func faultList(seed []byte, roles []ref.Role, emit func(b []byte, fault string)) {
	n := len(seed)
	// truncations, raw and with the message length patched
	for k := 0; k < n; k++ {
		emit(seed[:k], "truncate/raw")
		if k >= 4 {
			t := append([]byte(nil), seed[:k]...)
			emit(ref.PatchLen(t), "truncate/patched")
		}
	}
	// appended bytes
	for extra := 1; extra <= 3; extra++ {
		for _, v := range []byte{0x00, 0x01, 0xFF, 0x41} {
			t := append(append([]byte(nil), seed...), bytes.Repeat([]byte{v}, extra)...)
			emit(t, "append/raw")
			t2 := append([]byte(nil), t...)
			emit(ref.PatchLen(t2), "append/patched")
		}
	}
	// every structural byte set to every other value; payload bytes to a table + bit flips
	for i := 0; i < n; i++ {
		role := roles[i]
		if role == ref.RPayload {
			for _, v := range payloadFaultVals {
				if v != seed[i] {
					t := append([]byte(nil), seed...)
					t[i] = v
					emit(t, "set/payload")
				}
			}
			for bit := uint(0); bit < 8; bit++ {
				t := append([]byte(nil), seed...)
				t[i] ^= 1 << bit
				emit(t, "flip/payload")
			}
			continue
		}
		for v := 0; v < 256; v++ {
			if byte(v) == seed[i] {
				continue
			}
			t := append([]byte(nil), seed...)
			t[i] = byte(v)
			emit(t, "set/"+role.String())
		}
	}
}

func runC03(c *ctx) {
	c.Rule = "strict reference decoder oracle on: valid encodings; the same with non-minimal length bytes (each item singly, and all at once); every single-point fault of each seed encoding <= 160 bytes (each truncation point raw/patched, 1-3 appended bytes raw/patched, every header/format/length byte set to each of the other 255 values, every payload byte set to {00,01,7F,80,FF} and each bit flipped); sampled double faults; targeted faults (NaN/Inf payloads, control messages with text, width remainders); unstructured bytes. non-trivial = the byte string differs from a valid canonical encoding or uses non-minimal lengths; distinct by hash of the bytes Also (rounds 6-8): well-formed nests with siblings at every depth to 70/140 (minimal and 3-byte list headers) and the same nest with one item left over; every snapshot overwrites the bytes it got and encodes again. Also (round 10): one goroutine decodes 63,000 frames that are refused inside open lists, with a well-formed nested frame after every seven, which must be accepted and re-encode to itself every time."
	c.Assume = []string{"reference decoder internal/ref/decode.go states well-formedness as in the property; self-tested by Decode(Encode(x)) = x"}

	nseed := c.pick(500, 9000)
	nvalid := c.pick(20000, 400000)

	// 1+2: valid encodings and non-minimal rewrites
	c.parallel(nvalid, func(i int, r *rng.R) {
		p := gen.Profile{MaxDepth: 1 + r.Intn(4), Boundary: true, Budget: 500}
		if i%40 == 0 {
			p.Budget = 140000
		}
		g := gen.New(r, p)
		var it *ref.Item
		if !r.Chance(1, 20) {
			it = g.Tree()
		}
		m := g.Msg(it, true)
		b := ref.EncodeMessage(m)
		c03Eval(c, b, "valid/minimal", false)
		if it == nil {
			return
		}
		// all items in a longer form
		for _, extra := range []int{1, 2} {
			bb, _ := ref.EncodeRoles(m, func(k ref.Kind, length, min int) int {
				if min+extra > 3 {
					return 3
				}
				return min + extra
			})
			if !bytes.Equal(bb, b) {
				c03Eval(c, bb, fmt.Sprintf("valid/nonminimal-all+%d", extra), true)
			}
		}
		// one item at a time (first 12 items)
		for target := 0; target < 12; target++ {
			idx := 0
			hit := false
			form := 3
			if r.Bool() {
				form = 2
			}
			bb, _ := ref.EncodeRoles(m, func(k ref.Kind, length, min int) int {
				idx++
				if idx-1 == target && min < form {
					hit = true
					return form
				}
				return min
			})
			if !hit {
				if idx <= target {
					break
				}
				continue
			}
			c03Eval(c, bb, "valid/nonminimal-single", true)
		}
		// random mix of forms
		bb, _ := ref.EncodeRoles(m, func(k ref.Kind, length, min int) int { return min + r.Intn(4-min) })
		c03Eval(c, bb, "valid/nonminimal-mixed", !bytes.Equal(bb, b))
	})

	// a well-formed message longer than 16 MiB (two 9 MB items in a list)
	{
		half := &ref.Item{Kind: ref.B, Slots: make([]ref.Slot, 9<<20)}
		m := &ref.Msg{Stream: 7, Function: 3, W: 1, Dir: "H<->E", Session: 5, Item: &ref.Item{Kind: ref.L, Children: []*ref.Item{half, half}}}
		c03Eval(c, ref.EncodeMessage(m), "valid/longer-than-16MiB", true)
	}
	// control messages: all kinds, valid and with text
	r0 := c.rnd.Derive(3)
	for st := 0; st < 256; st++ {
		for rep := 0; rep < 4; rep++ {
			h := r0.Bytes(10)
			h[4] = 0
			h[5] = byte(st)
			if st == 0 {
				h[2] &= 0x7F
			}
			b := append([]byte{0, 0, 0, 10}, h...)
			c03Eval(c, b, "control/header-only", st != 0)
			for _, extra := range [][]byte{{0}, {0x01, 0x00}, {0x41, 0x01, 0x41}, {0xA5, 0x01}} {
				t := append(append([]byte(nil), b...), extra...)
				c03Eval(c, ref.PatchLen(t), "control/with-text", st != 0)
			}
			h2 := append([]byte(nil), h...)
			h2[4] = byte(1 + r0.Intn(255))
			c03Eval(c, append([]byte{0, 0, 0, 10}, h2...), "control/ptype-nonzero", true)
		}
	}

	// 3: single-point faults of seed encodings
	c.parallel(nseed, func(i int, r *rng.R) {
		var b []byte
		var roles []ref.Role
		for try := 0; try < 50; try++ {
			g := gen.New(r, gen.Profile{MaxDepth: 1 + r.Intn(3), MaxKids: 3, MaxElems: 3, Budget: 60})
			var it *ref.Item
			if !r.Chance(1, 25) {
				it = g.Tree()
			}
			m := g.Msg(it, true)
			lf := ref.Minimal
			if i%3 == 1 {
				lf = func(k ref.Kind, length, min int) int { return min + r.Intn(4-min) }
			}
			b, roles = ref.EncodeRoles(m, lf)
			if len(b) <= 160 {
				break
			}
		}
		if len(b) > 160 {
			return
		}
		c.Class("fault-seeds")
		if c.WantSample() {
			c.Sample(map[string]interface{}{"seed_encoding": hex.EncodeToString(b), "faults": "every truncation, append, structural byte value, payload table+bit flips"})
		}
		c03Faults(c, b, roles)
		// double faults: two positions at once (sampled; single faults are enumerated completely above)
		for k := 0; k < c.pick(200, 1500); k++ {
			t := append([]byte(nil), b...)
			for q := 0; q < 2; q++ {
				j := r.Intn(len(t))
				if roles[j] == ref.RPayload && r.Bool() {
					j = r.Intn(len(t)) // prefer structural bytes
				}
				switch r.Intn(4) {
				case 0:
					t[j] = byte(r.Intn(256))
				case 1:
					t[j] ^= 1 << uint(r.Intn(8))
				case 2:
					t[j]++
				default:
					t[j]--
				}
			}
			if r.Chance(1, 4) {
				t = t[:r.Intn(len(t)+1)]
			}
			if r.Bool() {
				ref.PatchLen(t)
			}
			c03Eval(c, t, "double-fault", true)
		}
	})

	// targeted: non-finite floats, width remainders, W-bit on even function
	c.parallel(c.pick(4000, 60000), func(i int, r *rng.R) {
		g := gen.New(r, gen.Profile{})
		switch i % 3 {
		case 0:
			k := ref.F4
			if r.Bool() {
				k = ref.F8
			}
			n := 1 + r.Intn(4)
			it := &ref.Item{Kind: k, Slots: make([]ref.Slot, n)}
			for j := range it.Slots {
				it.Slots[j] = g.Value(k)
			}
			bad := r.Intn(n)
			if k == ref.F4 {
				it.Slots[bad].Uint = uint64(0x7F800000 | uint32(r.Intn(2))<<31 | uint32(r.Intn(3))*uint32(r.Intn(1<<23)))
			} else {
				it.Slots[bad].Uint = 0x7FF0000000000000 | uint64(r.Intn(2))<<63 | uint64(r.Intn(3))*(r.U64()&(1<<52-1))
			}
			_ = math.NaN
			m := g.Msg(&ref.Item{Kind: ref.L, Children: []*ref.Item{it}}, true)
			c03Eval(c, ref.EncodeMessage(m), "targeted/non-finite-float", true)
		case 1:
			k := []ref.Kind{ref.I2, ref.I4, ref.I8, ref.U2, ref.U4, ref.U8, ref.F4, ref.F8}[r.Intn(8)]
			ln := r.Intn(40)
			payload := r.Bytes(ln)
			if k.IsFloat() {
				for j := range payload {
					payload[j] &= 0x3F // keep exponents finite
				}
			}
			nl := 1 + r.Intn(3)
			body := append(ref.HeaderN(k, ln, nl), payload...)
			m := g.Msg(nil, true)
			b := append(ref.EncodeMessage(m), body...)
			c03Eval(c, ref.PatchLen(b), "targeted/width-remainder", true)
		case 2:
			m := g.Msg(g.Scalar(ref.U1), true)
			b := ref.EncodeMessage(m)
			b[6] |= 0x80
			c03Eval(c, b, "targeted/wbit", true)
		}
	})

	// 4: unstructured bytes
	c.parallel(c.pick(200000, 4000000), func(i int, r *rng.R) {
		switch i % 3 {
		case 0:
			c03Eval(c, r.Bytes(r.Intn(65)), "random/raw", true)
		case 1:
			body := r.Bytes(r.Intn(40))
			h := r.Bytes(10)
			h[4], h[5] = 0, 0
			b := append(append([]byte{0, 0, 0, 0}, h...), body...)
			c03Eval(c, ref.PatchLen(b), "random/behind-header", true)
		case 2:
			// random item headers: plausible format bytes and lengths
			var body []byte
			for j := r.Intn(6); j >= 0; j-- {
				k := ref.Kind(r.Intn(int(ref.NKinds)))
				nl := 1 + r.Intn(3)
				ln := r.Intn(6)
				body = append(body, ref.HeaderN(k, ln, nl)...)
				if k != ref.L {
					body = append(body, r.Bytes(r.Intn(ln+2))...)
				}
			}
			h := r.Bytes(10)
			h[4], h[5] = 0, 0
			h[3] |= 1
			b := append(append([]byte{0, 0, 0, 0}, h...), body...)
			c03Eval(c, ref.PatchLen(b), "random/item-soup", true)
		}
	})
	// every nesting depth up to 70 (thorough 140): well-formed nests with distinct leaves before and after the nested list
	// at every level, the same nest with one item left over behind it, with one item missing at the innermost level,
	// and with non-minimal list headers (a decoder that keeps its own stack of open lists shows itself when it grows)
	for depth := 1; depth <= c.pick(70, 140); depth++ {
		for shape := 0; shape < 3; shape++ {
			for _, nl := range []int{1, 3} {
				body := []byte{0x41, 0x02, 'o', 'k'}
				for i := 0; i < depth; i++ {
					var inner []byte
					n := 1
					if shape >= 1 {
						inner = append(inner, 0xA9, 0x02, byte(i>>8), byte(i))
						n++
					}
					inner = append(inner, body...)
					if shape == 2 {
						inner = append(inner, 0x69, 0x02, 0xFF, byte(i), 0x01, 0x00)
						n += 2
					}
					body = append(ref.HeaderN(ref.L, n, nl), inner...)
				}
				c03Eval(c, wrapMsg(body), "valid/nest-with-siblings", true)
				c03Eval(c, wrapMsg(append(append([]byte{}, body...), 0xA5, 0x01, 0x07)), "append/item-behind-a-nest", true)
			}
		}
	}
	// round 10: one goroutine decodes a long run of frames that are refused INSIDE open lists (truncated, an 8-bit
	// character, a NaN, a wait bit on a reply after the item was read) with a well-formed nested message after every
	// few of them: the well-formed message is accepted, and decoded exactly, the 40,000th time as the first time
	{
		nest := func(depth int, bottom []byte) []byte {
			body := bottom
			for i := 0; i < depth; i++ {
				body = append([]byte{0x01, 0x02, 0xA5, 0x01, byte(i)}, body...)
			}
			return body
		}
		good := wrapMsg(nest(12, []byte{0x41, 0x02, 'o', 'k'}))
		_, goodAcc := ref.Decode(good)
		var bad [][]byte
		for _, d := range []int{1, 3, 7, 12, 20} {
			bad = append(bad,
				wrapMsg(nest(d, []byte{0x41, 0x02, 'o', 0x80})),                   // 8-bit character at the bottom
				wrapMsg(nest(d, []byte{0x91, 0x04, 0x7F, 0xC0, 0x00, 0x00})),      // NaN at the bottom
				wrapMsg(nest(d, []byte{0x41, 0x05, 'c', 'u', 't'})),               // text ends inside the bottom item
				wrapMsg(nest(d, []byte{0x01, 0x03, 0xA5, 0x01, 0x01})),            // a list that lacks two of its elements
				wrapMsg(append(nest(d, []byte{0x25, 0x01, 0x01}), 0xA5, 0x01, 9)), // an item left over behind the nest
			)
		}
		for _, b := range bad {
			if _, acc := ref.Decode(b); acc {
				c.Inconclusive(fmt.Sprintf("the reference decoder accepts a frame of the refused-frames run: %x", b))
			}
		}
		rounds := c.pick(9000, 60000)
		failed := false
		for round := 0; round < rounds && !failed && goodAcc; round++ {
			for k := 0; k < 7; k++ {
				b := bad[(round*7+k)%len(bad)]
				var ok bool
				o := real.Try(func() { _, ok = hsms.Parse(append([]byte(nil), b...)) })
				if o.Panicked || ok {
					c.Violation("C03/accepts-malformed/long-run", fmt.Sprintf("round %d: hsms.Parse(%x): ok=%v %s", round, clipB(b), ok, o), c03Case{Hex: hex.EncodeToString(b), Fault: "long-run"})
					failed = true
					break
				}
			}
			var msg ast.HSMSMessage
			var ok bool
			o := real.Try(func() { msg, ok = hsms.Parse(append([]byte(nil), good...)) })
			c.NoteBulk(8, 8)
			if o.Panicked || !ok || !bytes.Equal(msg.ToBytes(), good) {
				c.Violation("C03/rejects-well-formed/after-a-long-run-of-refused-frames", fmt.Sprintf("round %d (after %d refused frames in this process): hsms.Parse(%x): ok=%v %s", round, (round+1)*7, clipB(good), ok, o), c03Case{Hex: hex.EncodeToString(good), Fault: "long-run"})
				failed = true
			}
		}
		c.Class("long-run-of-refused-frames-then-a-good-one")
	}
	c.Required = []string{"long-run-of-refused-frames-then-a-good-one", "fault-seeds", "ref-accepts/valid/nest-with-siblings", "ref-rejects/append/item-behind-a-nest", "ref-accepts/valid/longer-than-16MiB", "ref-accepts/valid/nonminimal-single", "ref-rejects/truncate/patched", "ref-rejects/append/patched", "ref-rejects/control/with-text", "ref-accepts/set/length", "ref-rejects/set/length", "ref-rejects/set/format", "ref-accepts/random/item-soup"}
}

func replayC03(c *ctx, raw json.RawMessage) {
	var cs c03Case
	if json.Unmarshal(raw, &cs) != nil {
		return
	}
	b, err := hex.DecodeString(cs.Hex)
	if err != nil {
		return
	}
	c03Eval(c, b, cs.Fault, true)
}
