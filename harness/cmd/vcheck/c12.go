package main

import (
	"bytes"
	"encoding/json"
	"fmt"
	"math"
	"math/big"
	"strings"
	"unicode/utf8"

	"verifharness/internal/gen"
	"verifharness/internal/real"
	"verifharness/internal/ref"
	"verifharness/internal/rng"

	"github.com/wolimst/lib-secs2-hsms-go/pkg/ast"
)

// C12 — constructors store exactly what was passed or refuse it.

type c12Case struct {
	Op    string `json:"op"`             // num | fill | binstr | binint | ascii | varname | dup | ellipsis | msg
	Kind  string `json:"kind,omitempty"` // item kind
	GoT   string `json:"gotype,omitempty"`
	Val   string `json:"value,omitempty"` // decimal integer, or float bits as 0x…
	Str   string `json:"str,omitempty"`
	Where string `json:"where,omitempty"`
	Ints  []int  `json:"ints,omitempty"`
}

func init() { register("C12", "exploration", runC12, replayC12) }

var goIntTypes = []string{"int", "int8", "int16", "int32", "int64", "uint", "uint8", "uint16", "uint32", "uint64"}

func goTypeRange(t string) (lo, hi *big.Int) {
	bits := map[string]int{"int": 64, "int8": 8, "int16": 16, "int32": 32, "int64": 64, "uint": 64, "uint8": 8, "uint16": 16, "uint32": 32, "uint64": 64}[t]
	one := big.NewInt(1)
	if strings.HasPrefix(t, "u") {
		return big.NewInt(0), new(big.Int).Sub(new(big.Int).Lsh(one, uint(bits)), one)
	}
	h := new(big.Int).Lsh(one, uint(bits-1))
	return new(big.Int).Neg(h), new(big.Int).Sub(h, one)
}

func goValueOf(t string, v *big.Int) interface{} {
	switch t {
	case "int":
		return int(v.Int64())
	case "int8":
		return int8(v.Int64())
	case "int16":
		return int16(v.Int64())
	case "int32":
		return int32(v.Int64())
	case "int64":
		return v.Int64()
	case "uint":
		return uint(v.Uint64())
	case "uint8":
		return uint8(v.Uint64())
	case "uint16":
		return uint16(v.Uint64())
	case "uint32":
		return uint32(v.Uint64())
	case "uint64":
		return v.Uint64()
	}
	panic("goValueOf")
}

func kindRange(k ref.Kind) (lo, hi *big.Int) {
	w := k.Width()
	one := big.NewInt(1)
	if k.IsUint() {
		return big.NewInt(0), new(big.Int).Sub(new(big.Int).Lsh(one, uint(8*w)), one)
	}
	h := new(big.Int).Lsh(one, uint(8*w-1))
	return new(big.Int).Neg(h), new(big.Int).Sub(h, one)
}

// twos gives the w-byte big-endian two's complement of v.
func twos(v *big.Int, w int) []byte {
	m := new(big.Int).Lsh(big.NewInt(1), uint(8*w))
	x := new(big.Int).Mod(v, m)
	b := x.Bytes()
	out := make([]byte, w)
	copy(out[w-len(b):], b)
	return out
}

// c12Num: an integer-typed Go argument to an I*, U*, F* factory (direct or through FillVariables).
func c12Num(c *ctx, cs c12Case) {
	k, _ := ref.KindByName(cs.Kind)
	v, _ := new(big.Int).SetString(cs.Val, 10)
	arg := goValueOf(cs.GoT, v)
	var node ast.ItemNode
	var o real.Outcome
	if cs.Op == "fill" {
		var tpl ast.ItemNode
		switch {
		case k.IsFloat():
			tpl = real.Factory(k, 1.5, "x", 2.5)
		default:
			tpl = real.Factory(k, 1, "x", 2)
		}
		o = real.Try(func() { node = tpl.FillVariables(map[string]interface{}{"x": arg}) })
	} else {
		o = real.Try(func() { node = real.Factory(k, arg) })
	}
	lo, hi := kindRange(k)
	near := func(b *big.Int) bool { d := new(big.Int).Sub(v, b); return d.CmpAbs(big.NewInt(2)) <= 0 }
	tlo, thi := goTypeRange(cs.GoT)
	nontrivial := near(lo) || near(hi) || near(tlo) || near(thi)
	c.Note(rng.HashStr(cs.Op+cs.Kind+cs.GoT+cs.Val), nontrivial)
	sigBase := fmt.Sprintf("C12/%s/%s<-%s", cs.Op, cs.Kind, cs.GoT)
	if k.IsFloat() {
		// integers into float items: stored as the nearest float (of the width), or refused when beyond the finite range
		f64, _ := new(big.Float).SetInt(v).Float64()
		wantBits := math.Float64bits(f64)
		fits := true
		if k == ref.F4 {
			var b32 uint32
			b32, fits = ref.F32FromF64Bits(wantBits)
			wantBits = uint64(b32)
			direct, _ := new(big.Float).SetInt(v).Float32()
			if fits && math.Float32bits(direct) != b32 {
				// double rounding differs from direct rounding: accept either
				c.Class("num/float-double-rounding-ambiguous(not asserted)")
				return
			}
		}
		c.Class("num/int-into-float")
		if !fits {
			if !o.Panicked {
				c.Violation(sigBase+"/overflow-accepted", fmt.Sprintf("%s(%s) in %s accepted", cs.GoT, cs.Val, k), cs)
			}
			return
		}
		if o.Panicked {
			c.Violation(sigBase+"/refused-in-range", fmt.Sprintf("%s(%s) in %s: %s", cs.GoT, cs.Val, k, o), cs)
			return
		}
		c12CheckStored(c, cs, sigBase, node, k, func(payload []byte) string {
			w := k.Width()
			if cs.Op == "fill" {
				payload = payload[w : 2*w]
			}
			var got uint64
			for _, b := range payload[:w] {
				got = got<<8 | uint64(b)
			}
			if got != wantBits {
				return fmt.Sprintf("stored bits %#x want %#x", got, wantBits)
			}
			return ""
		})
		return
	}
	in := v.Cmp(lo) >= 0 && v.Cmp(hi) <= 0
	if in {
		c.Class("num/in-domain")
	} else {
		c.Class("num/out-of-domain")
	}
	if !in {
		if !o.Panicked {
			c.Violation(sigBase+"/out-of-range-accepted", fmt.Sprintf("%s(%s) accepted by %s: prints %s", cs.GoT, cs.Val, k, clipS(real.Str(node))), cs)
		}
		return
	}
	if o.Panicked {
		c.Violation(sigBase+"/in-range-refused", fmt.Sprintf("%s(%s) refused by %s: %s", cs.GoT, cs.Val, k, o), cs)
		return
	}
	c12CheckStored(c, cs, sigBase, node, k, func(payload []byte) string {
		w := k.Width()
		if cs.Op == "fill" {
			payload = payload[w : 2*w]
		}
		if !bytes.Equal(payload[:w], twos(v, w)) {
			return fmt.Sprintf("payload %x want %x", payload[:w], twos(v, w))
		}
		return ""
	})
	// printed decimal
	s := real.Str(node)
	want := fmt.Sprintf("<%s[1] %s>", k, v.String())
	if cs.Op == "fill" {
		want = fmt.Sprintf("<%s[3] 1 %s 2>", k, v.String())
	}
	if s != want {
		c.Violation(sigBase+"/printed-value", fmt.Sprintf("prints %q want %q", s, want), cs)
	}
}

func c12CheckStored(c *ctx, cs c12Case, sigBase string, node ast.ItemNode, k ref.Kind, check func(payload []byte) string) {
	b := node.ToBytes()
	n := 1
	if cs.Op == "fill" {
		n = 3
	}
	hdr := ref.Header(k, n*k.Width())
	if len(b) != len(hdr)+n*k.Width() || !bytes.Equal(b[:len(hdr)], hdr) {
		c.Violation(sigBase+"/encoding", fmt.Sprintf("ToBytes()=%x", b), cs)
		return
	}
	if d := check(b[len(hdr):]); d != "" {
		c.Violation(sigBase+"/stored-value", fmt.Sprintf("%s(%s) in %s: %s", cs.GoT, cs.Val, k, d), cs)
	}
}

// c12Float: float32/float64 arguments to F4/F8.
func c12Float(c *ctx, cs c12Case) {
	k, _ := ref.KindByName(cs.Kind)
	var bits uint64
	fmt.Sscanf(cs.Val, "0x%x", &bits)
	var arg interface{}
	var f64 float64
	if cs.GoT == "float32" {
		f := math.Float32frombits(uint32(bits))
		arg, f64 = f, float64(f)
	} else {
		f64 = math.Float64frombits(bits)
		arg = f64
	}
	var node ast.ItemNode
	o := real.Try(func() { node = real.Factory(k, arg) })
	c.Note(rng.HashStr("f"+cs.Kind+cs.GoT+cs.Val), true)
	sig := fmt.Sprintf("C12/float/%s<-%s", k, cs.GoT)
	if math.IsNaN(f64) || math.IsInf(f64, 0) {
		c.Class("float/non-finite")
		if !o.Panicked {
			c.Violation(sig+"/non-finite-accepted", fmt.Sprintf("%v accepted", f64), cs)
		}
		return
	}
	wantBits := math.Float64bits(f64)
	if k == ref.F4 {
		b32, fits := ref.F32FromF64Bits(wantBits)
		if math.Abs(f64) > math.MaxFloat32 {
			if fits {
				c.Class("float/band-above-max(either)")
				if !o.Panicked {
					got := node.ToBytes()
					if len(got) != 6 || !bytes.Equal(got[2:], []byte{byte(b32 >> 24), byte(b32 >> 16), byte(b32 >> 8), byte(b32)}) {
						c.Violation(sig+"/band", fmt.Sprintf("%g in F4: bytes %x", f64, got), cs)
					}
				}
				return
			}
			c.Class("float/overflow")
			if !o.Panicked {
				c.Violation(sig+"/overflow-accepted", fmt.Sprintf("%g accepted in F4", f64), cs)
			}
			return
		}
		wantBits = uint64(b32)
	}
	c.Class("float/in-range")
	if o.Panicked {
		c.Violation(sig+"/in-range-refused", fmt.Sprintf("%g refused: %s", f64, o), cs)
		return
	}
	c12CheckStored(c, cs, sig, node, k, func(p []byte) string {
		var got uint64
		for _, b := range p[:k.Width()] {
			got = got<<8 | uint64(b)
		}
		if got != wantBits {
			return fmt.Sprintf("stored bits %#x want %#x", got, wantBits)
		}
		return ""
	})
	// the printed token must denote the stored value
	s := real.Str(node)
	tok := strings.TrimSuffix(strings.TrimPrefix(s, fmt.Sprintf("<%s[1] ", k)), ">")
	if !ref.FloatTokenDenotes(tok, k, wantBits) {
		c.Violation(sig+"/printed-value", fmt.Sprintf("prints %q which does not denote bits %#x", s, wantBits), cs)
	}
}

// c12BinStr: string arguments of NewBinaryNode that start with "0b".
func c12BinStr(c *ctx, cs c12Case) {
	var node ast.ItemNode
	o := real.Try(func() { node = ast.NewBinaryNode(cs.Str) })
	c.Note(rng.HashStr("b"+cs.Str), true)
	digits := strings.TrimPrefix(cs.Str, "0b")
	clean := strings.ReplaceAll(digits, "_", "")
	valid := strings.HasPrefix(cs.Str, "0b") && len(digits) > 0 && strings.Trim(digits, "01") == ""
	val := -1
	if valid {
		v := 0
		for _, d := range digits {
			v = v*2 + int(d-'0')
			if v > 1<<20 {
				v = 1 << 20 // far beyond 255 already; stop growing
			}
		}
		val = v
	}
	plausibleSep := strings.HasPrefix(cs.Str, "0b") && strings.Contains(digits, "_") && clean != "" && strings.Trim(clean, "01") == ""
	switch {
	case valid && val <= 255:
		c.Class("binstr/valid")
		if o.Panicked {
			c.Violation("C12/binstr/valid-refused", fmt.Sprintf("NewBinaryNode(%q): %s", cs.Str, o), cs)
		} else if b := node.ToBytes(); len(b) != 3 || int(b[2]) != val {
			c.Violation("C12/binstr/stored-value", fmt.Sprintf("NewBinaryNode(%q) stores %x want %d", cs.Str, b, val), cs)
		}
	case plausibleSep:
		c.Class("binstr/digit-separators(either)")
		if !o.Panicked {
			v := 0
			for _, d := range clean {
				v = v*2 + int(d-'0')
				if v > 1<<20 {
					break
				}
			}
			if b := node.ToBytes(); len(b) != 3 || int(b[2]) != v || v > 255 {
				c.Violation("C12/binstr/separator-third-value", fmt.Sprintf("NewBinaryNode(%q) stores %x", cs.Str, b), cs)
			}
		}
	default:
		c.Class("binstr/invalid")
		if !o.Panicked {
			c.Violation("C12/binstr/invalid-accepted", fmt.Sprintf("NewBinaryNode(%q) accepted, stores %x, prints %s", cs.Str, node.ToBytes(), real.Str(node)), cs)
		}
	}
}

func c12BinInt(c *ctx, cs c12Case) {
	v := cs.Ints[0]
	var node ast.ItemNode
	var o real.Outcome
	if cs.Where == "fill" {
		o = real.Try(func() { node = ast.NewBinaryNode(1, "x").FillVariables(map[string]interface{}{"x": v}) })
	} else {
		o = real.Try(func() { node = ast.NewBinaryNode(v) })
	}
	c.Note(rng.Mix(uint64(int64(v)), rng.HashStr("bi"+cs.Where)), v >= -2 && v <= 257)
	in := v >= 0 && v <= 255
	c.Class("binint")
	if in == o.Panicked {
		c.Violation("C12/binint/"+cs.Where, fmt.Sprintf("NewBinaryNode(int %d): %s", v, o), cs)
		return
	}
	if in {
		b := node.ToBytes()
		if int(b[len(b)-1]) != v {
			c.Violation("C12/binint/stored", fmt.Sprintf("int %d stored as %x", v, b), cs)
		}
	}
}

// c12ASCII: strings over all of Unicode (and invalid UTF-8).
func c12ASCII(c *ctx, cs c12Case) {
	s := cs.Str
	var node ast.ItemNode
	var o real.Outcome
	if cs.Where == "fill" {
		o = real.Try(func() { node = ast.NewASCIINodeVariable("x", 0, -1).FillVariables(map[string]interface{}{"x": s}) })
	} else {
		o = real.Try(func() { node = ast.NewASCIINode(s) })
	}
	ok := true
	for i := 0; i < len(s); i++ {
		if s[i] > 127 {
			ok = false
		}
	}
	c.Note(rng.HashStr("a"+cs.Where+s), !ok || len(s) > 0)
	if ok {
		c.Class("ascii/7bit")
	} else if utf8.ValidString(s) {
		c.Class("ascii/non-ascii-unicode")
	} else {
		c.Class("ascii/invalid-utf8")
	}
	if ok == o.Panicked {
		c.Violation("C12/ascii/"+cs.Where, fmt.Sprintf("NewASCIINode(%q): %s", s, o), cs)
		return
	}
	if ok {
		b := node.ToBytes()
		h := ref.Header(ref.A, len(s))
		if !bytes.Equal(b, append(h, s...)) {
			c.Violation("C12/ascii/stored", fmt.Sprintf("NewASCIINode(%q) encodes to %x", s, b), cs)
		}
	}
}

// c12VarName: a candidate name in every place a variable may stand.
func c12VarName(c *ctx, cs c12Case) {
	name := cs.Str
	valid := ref.VarNameOK(name)
	ell := ref.IsEllipsisName(name)
	c.Note(rng.HashStr("v"+name), true)
	if valid {
		c.Class("varname/valid")
	} else if ell {
		c.Class("varname/ellipsis")
	} else {
		c.Class("varname/invalid")
	}
	places := map[string]func(){
		"I2":      func() { ast.NewIntNode(2, 1, name) },
		"U8":      func() { ast.NewUintNode(8, name) },
		"F4":      func() { ast.NewFloatNode(4, name, 1.0) },
		"B":       func() { ast.NewBinaryNode(3, name) },
		"BOOLEAN": func() { ast.NewBooleanNode(name) },
		"A":       func() { ast.NewASCIINodeVariable(name, 0, -1) },
		"L":       func() { ast.NewListNode(ast.NewIntNode(1, 5), name) },
		"Lfirst":  func() { ast.NewListNode(name, ast.NewIntNode(1, 5)) },
	}
	for where, f := range places {
		o := real.Try(f)
		want := valid
		if ell && where == "L" {
			want = true // an ellipsis is legal in a list after the first item
		}
		if where == "B" && strings.HasPrefix(name, "0b") {
			continue // binary-literal strings are c12BinStr's business
		}
		if want == o.Panicked {
			c.Violation("C12/varname/"+where, fmt.Sprintf("name %q in %s: %s (valid=%v ellipsis=%v)", name, where, o, valid, ell), cs)
		}
	}
}

func c12Structure(c *ctx, cs c12Case) {
	c.Note(rng.HashStr("s"+cs.Where), true)
	c.Class("structure/" + cs.Where)
	expectRefuse := func(what string, f func()) {
		if o := real.Try(f); !o.Panicked {
			c.Violation("C12/structure/"+cs.Where+"/"+what, what+" was accepted", cs)
		}
	}
	expectAccept := func(what string, f func()) {
		if o := real.Try(f); o.Panicked {
			c.Violation("C12/structure/"+cs.Where+"/"+what, what+" was refused: "+o.String(), cs)
		}
	}
	switch cs.Where {
	case "duplicates":
		expectRefuse("dup-in-int", func() { ast.NewIntNode(1, "a", "a") })
		expectRefuse("dup-in-uint", func() { ast.NewUintNode(2, "a", 1, "a") })
		expectRefuse("dup-in-float", func() { ast.NewFloatNode(8, "a", "a") })
		expectRefuse("dup-in-binary", func() { ast.NewBinaryNode("a", "a") })
		expectRefuse("dup-in-boolean", func() { ast.NewBooleanNode("a", true, "a") })
		expectRefuse("dup-in-list", func() { ast.NewListNode("a", "a") })
		expectRefuse("dup-across-children", func() { ast.NewListNode(ast.NewIntNode(1, "a"), ast.NewUintNode(1, "a")) })
		expectRefuse("dup-list-var-vs-child", func() { ast.NewListNode("a", ast.NewASCIINodeVariable("a", 0, -1)) })
		expectRefuse("dup-deep", func() {
			ast.NewListNode(ast.NewListNode(ast.NewListNode(ast.NewBooleanNode("q"))), ast.NewListNode(ast.NewBinaryNode("q")))
		})
		expectRefuse("dup-ellipsis-names-across-lists", func() { ast.NewListNode(ast.NewListNode(ast.NewIntNode(1, 1), "..."), "...") })
		// a fill whose value is a variable name renames the variable: the new name must not collide either
		expectRefuse("fill-rename-collision-uint", func() { ast.NewUintNode(1, "a", "b", 5).FillVariables(map[string]interface{}{"a": "b"}) })
		expectRefuse("fill-rename-collision-int", func() { ast.NewIntNode(2, "a", 1, "b").FillVariables(map[string]interface{}{"b": "a"}) })
		expectRefuse("fill-rename-collision-float", func() { ast.NewFloatNode(4, "a", "b").FillVariables(map[string]interface{}{"a": "b"}) })
		expectRefuse("fill-rename-collision-binary", func() { ast.NewBinaryNode("a", "b").FillVariables(map[string]interface{}{"a": "b"}) })
		expectRefuse("fill-rename-collision-boolean", func() { ast.NewBooleanNode("a", true, "b").FillVariables(map[string]interface{}{"a": "b"}) })
		expectRefuse("fill-rename-collision-list", func() { ast.NewListNode("a", "b").FillVariables(map[string]interface{}{"a": "b"}) })
		expectRefuse("fill-rename-collision-across-children", func() {
			ast.NewListNode(ast.NewIntNode(1, "a"), ast.NewUintNode(1, "b")).FillVariables(map[string]interface{}{"a": "b"})
		})
		expectRefuse("fill-item-bringing-a-sibling-name", func() {
			ast.NewListNode("lv", ast.NewUintNode(1, "b")).FillVariables(map[string]interface{}{"lv": ast.NewIntNode(1, "b")})
		})
		// one and the same object in two places of a tree carries its names to both
		expectRefuse("same-item-twice", func() { x := ast.NewUintNode(1, "a", 7); ast.NewListNode(x, x) })
		expectRefuse("same-item-twice-apart", func() { x := ast.NewBinaryNode("a"); ast.NewListNode(x, ast.NewIntNode(1, 3), x) })
		expectRefuse("same-sublist-twice", func() { l := ast.NewListNode(ast.NewFloatNode(4, "a")); ast.NewListNode(l, l) })
		expectRefuse("same-item-at-two-depths", func() {
			x := ast.NewASCIINodeVariable("a", 0, -1)
			ast.NewListNode(x, ast.NewListNode(ast.NewListNode(x)))
		})
		expectRefuse("fill-same-item-into-two-variables", func() {
			x := ast.NewUintNode(1, "q")
			ast.NewListNode("v1", "v2").FillVariables(map[string]interface{}{"v1": x, "v2": x})
		})
		expectRefuse("fill-item-the-list-already-holds", func() {
			x := ast.NewUintNode(1, "q")
			ast.NewListNode(x, "v").FillVariables(map[string]interface{}{"v": x})
		})
		expectRefuse("message-fill-same-item-into-two-variables", func() {
			x := ast.NewUintNode(1, "q")
			ast.NewDataMessage("", 1, 1, 0, "H->E", ast.NewListNode("v1", ast.NewListNode("v2"))).FillVariables(map[string]interface{}{"v1": x, "v2": x})
		})
		expectAccept("same-variable-free-item-twice", func() { x := ast.NewUintNode(1, 7); ast.NewListNode(x, x, ast.NewListNode(x)) })
		expectAccept("same-item-in-two-different-lists", func() {
			x := ast.NewUintNode(1, "a")
			ast.NewListNode(x)
			ast.NewListNode(x, "b")
		})
		expectRefuse("fill-rename-to-invalid-name", func() { ast.NewUintNode(1, "a").FillVariables(map[string]interface{}{"a": "9z"}) })
		expectAccept("fill-rename-to-fresh-name", func() { ast.NewUintNode(1, "a", "b").FillVariables(map[string]interface{}{"a": "c"}) })
		expectAccept("distinct-names", func() { ast.NewListNode(ast.NewIntNode(1, "a"), ast.NewUintNode(1, "b"), "c", "...") })
		expectAccept("same-name-different-index", func() { ast.NewListNode(ast.NewIntNode(1, "a[0]"), ast.NewUintNode(1, "a[1]")) })
	case "ellipsis":
		expectRefuse("leading", func() { ast.NewListNode("...") })
		expectRefuse("leading-indexed", func() { ast.NewListNode("...[0]", ast.NewIntNode(1, 1)) })
		expectRefuse("second", func() { ast.NewListNode(ast.NewIntNode(1, 1), "...", "...[1]") })
		expectRefuse("second-indexed", func() { ast.NewListNode(ast.NewIntNode(1, 1), "...[0]", ast.NewIntNode(1, 2), "...[1]") })
		expectAccept("one-after-first", func() { ast.NewListNode(ast.NewIntNode(1, 1), "...") })
		expectAccept("nested-distinct", func() { ast.NewListNode(ast.NewListNode(ast.NewIntNode(1, 1), "...[0]"), "...[1]") })
		expectRefuse("in-int", func() { ast.NewIntNode(1, 1, "...") })
		expectRefuse("in-ascii", func() { ast.NewASCIINodeVariable("...", 0, -1) })
		// the same placements reached by renaming a variable through a fill (a string fill value is a rename): what the
		// constructor refuses when written directly, a fill must not produce either
		for _, ell := range []string{"...", "...[0]", "...[7]"} {
			ell := ell
			expectRefuse("fill-renames-first-list-variable-to-"+ell, func() {
				ast.NewListNode("v", ast.NewIntNode(1, 1)).FillVariables(map[string]interface{}{"v": ell})
			})
			expectRefuse("fill-renames-first-list-variable-to-"+ell+"-with-a-count", func() {
				ast.NewListNode("v", ast.NewIntNode(1, 1), "...").FillVariables(map[string]interface{}{"v": ell, "...": 0})
			})
			expectRefuse("fill-renames-first-variable-of-a-nested-list-to-"+ell, func() {
				ast.NewListNode(ast.NewUintNode(1, 5), ast.NewListNode("v", "w")).FillVariables(map[string]interface{}{"v": ell})
			})
			expectRefuse("message-fill-renames-first-list-variable-to-"+ell, func() {
				ast.NewDataMessage("", 1, 1, 0, "H->E", ast.NewListNode("v", ast.NewIntNode(1, 1))).FillVariables(map[string]interface{}{"v": ell})
			})
			expectRefuse("fill-renames-a-list-variable-to-a-second-"+ell, func() {
				ast.NewListNode(ast.NewIntNode(1, 1), "...[1]", "v").FillVariables(map[string]interface{}{"v": ell})
			})
			expectRefuse("fill-renames-a-slot-to-"+ell, func() {
				ast.NewUintNode(2, 1, "v").FillVariables(map[string]interface{}{"v": ell})
			})
			expectRefuse("fill-renames-a-boolean-slot-to-"+ell, func() {
				ast.NewBooleanNode(true, "v").FillVariables(map[string]interface{}{"v": ell})
			})
		}
	case "asciibounds":
		expectRefuse("min<0", func() { ast.NewASCIINodeVariable("v", -1, 5) })
		expectRefuse("max<-1", func() { ast.NewASCIINodeVariable("v", 0, -2) })
		expectRefuse("min>max", func() { ast.NewASCIINodeVariable("v", 6, 5) })
		expectAccept("min=max", func() { ast.NewASCIINodeVariable("v", 5, 5) })
		expectAccept("unbounded", func() { ast.NewASCIINodeVariable("v", 5, -1) })
		expectRefuse("fill-too-short", func() { ast.NewASCIINodeVariable("v", 2, 4).FillVariables(map[string]interface{}{"v": "a"}) })
		expectRefuse("fill-too-long", func() { ast.NewASCIINodeVariable("v", 2, 4).FillVariables(map[string]interface{}{"v": "abcde"}) })
		expectAccept("fill-fits", func() { ast.NewASCIINodeVariable("v", 2, 4).FillVariables(map[string]interface{}{"v": "abcd"}) })
		expectRefuse("fill-non-string", func() { ast.NewASCIINodeVariable("v", 0, -1).FillVariables(map[string]interface{}{"v": 5}) })
	case "wrongtypes":
		expectRefuse("float-into-int", func() { ast.NewIntNode(4, 1.0) })
		expectRefuse("float-into-uint", func() { ast.NewUintNode(4, float32(1)) })
		expectRefuse("bool-into-int", func() { ast.NewIntNode(1, true) })
		expectRefuse("int-into-boolean", func() { ast.NewBooleanNode(1) })
		expectRefuse("nil-into-int", func() { ast.NewIntNode(1, nil) })
		expectRefuse("item-into-int", func() { ast.NewIntNode(1, ast.NewIntNode(1, 1)) })
		expectRefuse("int-into-list", func() { ast.NewListNode(5) })
		expectRefuse("bytes-into-binary", func() { ast.NewBinaryNode([]byte{1}) })
		expectRefuse("bad-width-int", func() { ast.NewIntNode(3, 1) })
		expectRefuse("bad-width-uint", func() { ast.NewUintNode(0, 1) })
		expectRefuse("bad-width-float", func() { ast.NewFloatNode(2, 1.0) })
		expectRefuse("fill-bool-into-uint", func() { ast.NewUintNode(1, "x").FillVariables(map[string]interface{}{"x": false}) })
		expectRefuse("fill-string-name-into-list-invalid", func() { ast.NewListNode("x").FillVariables(map[string]interface{}{"x": "1bad"}) })
	}
}

// c12Msg: message factories and producers at the header constraints.
func c12Msg(c *ctx, cs c12Case) {
	stream, function, wait, session := cs.Ints[0], cs.Ints[1], cs.Ints[2], cs.Ints[3]
	name, dir := cs.Str, cs.Where
	dirOK := dir == "H->E" || dir == "H<-E" || dir == "H<->E"
	nameOK := true
	for _, r := range name {
		if r == ' ' || r == '\t' || r == '\n' || r == '\r' || r == '\v' || r == '\f' {
			nameOK = false
		}
	}
	base := stream >= 0 && stream < 128 && function >= 0 && function < 256 && dirOK && nameOK
	item := ast.NewUintNode(1, 7)
	c.Note(rng.HashStr(fmt.Sprint(cs.Ints, name, dir)), true)

	// NewDataMessage
	wantOK := base && wait >= 0 && wait <= 2 && !(wait == 1 && function%2 == 0)
	var m *ast.DataMessage
	o := real.Try(func() { m = ast.NewDataMessage(name, stream, function, wait, dir, item) })
	c.Class("msg/NewDataMessage")
	if wantOK == o.Panicked {
		c.Violation("C12/msg/NewDataMessage", fmt.Sprintf("NewDataMessage(%q,S%d,F%d,w=%d,%q): %s", name, stream, function, wait, dir, o), cs)
	} else if wantOK {
		ws := []string{"false", "true", "optional"}[wait]
		if m.Name() != name || m.StreamCode() != stream || m.FunctionCode() != function || m.WaitBit() != ws || m.Direction() != dir || m.SessionID() != -1 {
			c.Violation("C12/msg/NewDataMessage/stored", fmt.Sprintf("stored %q S%dF%d %s %s", m.Name(), m.StreamCode(), m.FunctionCode(), m.WaitBit(), m.Direction()), cs)
		}
		// producers at their constraints
		if wait == 2 {
			o2 := real.Try(func() { m.SetWaitBit(true) })
			if (function%2 == 1) == o2.Panicked {
				c.Violation("C12/msg/SetWaitBit", fmt.Sprintf("SetWaitBit(true) on F%d: %s", function, o2), cs)
			}
		}
		var m2 *ast.DataMessage
		o3 := real.Try(func() { m2 = m.SetSessionIDAndSystemBytes(session, []byte{1, 2, 3, 4}) })
		sOK := session >= -1 && session <= 65535
		c.Class("msg/SetSessionID")
		if sOK == o3.Panicked {
			c.Violation("C12/msg/SetSessionID", fmt.Sprintf("SetSessionIDAndSystemBytes(%d): %s", session, o3), cs)
		} else if sOK && m2.SessionID() != session {
			c.Violation("C12/msg/SetSessionID/stored", fmt.Sprintf("session %d stored as %d", session, m2.SessionID()), cs)
		}
		if sOK && !o3.Panicked {
			// a fill on the stamped message stores the value and keeps every header value exactly (session id 0 is an id)
			var f *ast.DataMessage
			of := real.Try(func() {
				f = ast.NewDataMessage(name, stream, function, wait, dir, ast.NewUintNode(1, "v")).SetSessionIDAndSystemBytes(session, []byte{1, 2, 3, 4}).FillVariables(map[string]interface{}{"v": 5})
			})
			c.Class("msg/fill-after-stamp")
			if of.Panicked {
				c.Violation("C12/msg/fill-after-stamp/refused", of.String(), cs)
			} else {
				var want []byte
				if wait != 2 && session != -1 {
					want = ref.EncodeMessage(&ref.Msg{Name: name, Stream: stream, Function: function, W: wait, Dir: dir, Session: session, Sys: [4]byte{1, 2, 3, 4},
						Item: &ref.Item{Kind: ref.U1, Slots: []ref.Slot{{Uint: 5}}}})
				}
				if f.SessionID() != session || f.StreamCode() != stream || f.FunctionCode() != function || f.Name() != name || !bytes.Equal(f.ToBytes(), want) {
					c.Violation("C12/msg/fill-after-stamp/stored", fmt.Sprintf("session %d S%dF%d after the fill: session %d S%dF%d bytes %x want %x", session, stream, function, f.SessionID(), f.StreamCode(), f.FunctionCode(), clipB(f.ToBytes()), clipB(want)), cs)
				}
			}
		}
	}
	// NewHSMSDataMessage
	wantH := base && (wait == 0 || wait == 1) && !(wait == 1 && function%2 == 0) && session >= 0 && session <= 65535
	o4 := real.Try(func() {
		m = ast.NewHSMSDataMessage(name, stream, function, wait, dir, item, session, []byte{9, 8, 7, 6})
	})
	c.Class("msg/NewHSMSDataMessage")
	if wantH == o4.Panicked {
		c.Violation("C12/msg/NewHSMSDataMessage", fmt.Sprintf("NewHSMSDataMessage(%q,S%d,F%d,w=%d,%q,session=%d): %s", name, stream, function, wait, dir, session, o4), cs)
	} else if wantH {
		mm := &ref.Msg{Name: name, Stream: stream, Function: function, W: wait, Dir: dir, Session: session, Sys: [4]byte{9, 8, 7, 6},
			Item: &ref.Item{Kind: ref.U1, Slots: []ref.Slot{{Uint: 7}}}}
		if !bytes.Equal(m.ToBytes(), ref.EncodeMessage(mm)) {
			c.Violation("C12/msg/NewHSMSDataMessage/stored", fmt.Sprintf("bytes %x", m.ToBytes()), cs)
		}
		// round 10: a message that HAS BEEN ENCODED is stamped again, at every boundary of the session id (-1 = unset is
		// legal and leaves nothing to encode), and each result once more: stored and encoded exactly, or refused
		cur, curM := m, *mm
		for step, s2 := range []int{-1, 65535, 0, -1, 256, 65536, -2, session, 255, -1, 1, 1 << 16, 1<<31 - 1, 65535} {
			sys := [4]byte{byte(step), byte(s2), byte(s2 >> 8), 0xA5}
			var next *ast.DataMessage
			before := cur.ToBytes() // encoded first, every time
			on := real.Try(func() { next = cur.SetSessionIDAndSystemBytes(s2, sys[:]) })
			ok2 := s2 >= -1 && s2 <= 65535
			c.Class("msg/restamp-of-an-encoded-message")
			if ok2 == on.Panicked {
				c.Violation("C12/msg/restamp-after-encoding", fmt.Sprintf("step %d: SetSessionIDAndSystemBytes(%d) on an encoded message: %s", step, s2, on), cs)
				break
			}
			if !bytes.Equal(cur.ToBytes(), before) {
				c.Violation("C12/msg/restamp-after-encoding/receiver-changed", fmt.Sprintf("step %d: the receiver encoded %x before and %x after SetSessionIDAndSystemBytes(%d)", step, clipB(before), clipB(cur.ToBytes()), s2), cs)
				break
			}
			if !ok2 {
				continue
			}
			nm := curM
			nm.Session, nm.Sys = s2, sys
			var want []byte
			if s2 != -1 {
				want = ref.EncodeMessage(&nm)
			}
			if got := next.ToBytes(); next.SessionID() != s2 || !bytes.Equal(got, want) || !bytes.Equal(next.SystemBytes(), sys[:]) {
				c.Violation("C12/msg/restamp-after-encoding/stored", fmt.Sprintf("step %d: session %d sys %x stored as session %d sys %x, bytes %x want %x", step, s2, sys, next.SessionID(), next.SystemBytes(), clipB(got), clipB(want)), cs)
				break
			}
			cur, curM = next, nm
		}
	}
	if base {
		// an item with variables is refused by the HSMS factory
		o5 := real.Try(func() {
			ast.NewHSMSDataMessage(name, stream, function, 0, dir, ast.NewUintNode(1, "v"), 1, []byte{0, 0, 0, 0})
		})
		if !o5.Panicked {
			c.Violation("C12/msg/NewHSMSDataMessage/variables-accepted", "item with a variable accepted", cs)
		}
	}
}

func c12Eval(c *ctx, cs c12Case) {
	if c.WantSample() && (cs.Op == "structure" || rng.HashStr(cs.Op+cs.Kind+cs.GoT+cs.Val+cs.Str)%1777 == 0) {
		c.Sample(cs)
	}
	switch cs.Op {
	case "num", "fill":
		c12Num(c, cs)
	case "float":
		c12Float(c, cs)
	case "binstr":
		c12BinStr(c, cs)
	case "binint":
		c12BinInt(c, cs)
	case "ascii":
		c12ASCII(c, cs)
	case "varname":
		c12VarName(c, cs)
	case "structure":
		c12Structure(c, cs)
	case "msg":
		c12Msg(c, cs)
	case "fillhist":
		c12FillHist(c, cs)
	}
}

// c12FillHist: several fills of ONE node object, some of them refused, each compared with the same fill of a fresh
// twin: what a call stores depends on the values of that call only - not on values handed to an earlier call, kept or
// refused.
func c12FillHist(c *ctx, cs c12Case) {
	r := rng.New(uint64(cs.Ints[0]))
	kinds := []ref.Kind{ref.I1, ref.I2, ref.I4, ref.I8, ref.U1, ref.U2, ref.U4, ref.U8, ref.F4, ref.F8, ref.B, ref.BOOLEAN}
	k := kinds[r.Intn(len(kinds))]
	g := gen.New(r, gen.Profile{})
	names := []string{"a", "b", "cc"}
	tpl := &ref.Item{Kind: k, Slots: make([]ref.Slot, 5)}
	for i := range tpl.Slots {
		tpl.Slots[i] = g.Value(k)
	}
	for j, p := range r.Perm(5)[:3] {
		tpl.Slots[p] = ref.Slot{Var: names[j]}
	}
	bad := func() interface{} {
		switch {
		case k == ref.I8:
			return uint64(1) << 63
		case k.IsInt():
			return int64(1) << uint(8*k.Width()-1)
		case k.IsUint():
			return -1
		case k == ref.F4:
			return 1e39
		case k == ref.F8:
			return math.Inf(1)
		case k == ref.B:
			return 256
		}
		return 5
	}
	var node ast.ItemNode
	if o := real.Try(func() { node = real.Build(tpl) }); o.Panicked {
		return
	}
	c.Note(rng.HashStr(fmt.Sprint("fillhist", cs.Ints)), true)
	c.Class("num/fill-history-on-one-node")
	hist := ""
	for call := 0; call < 4; call++ {
		m1, m2 := map[string]interface{}{}, map[string]interface{}{}
		desc := "{"
		for _, nm := range names {
			if !r.Chance(1, 2) {
				continue
			}
			var raw interface{} = goValue(r, k, g.Value(k))
			if r.Chance(1, 5) {
				raw = bad()
			}
			m1[nm], m2[nm] = raw, raw
			desc += fmt.Sprintf("%s:%v ", nm, raw)
		}
		desc += "}"
		var got, want ast.ItemNode
		og := real.Try(func() { got = node.FillVariables(m1) })
		ow := real.Try(func() { want = real.Build(tpl).FillVariables(m2) })
		if og.Panicked != ow.Panicked {
			c.Violation("C12/fillhist/refusal-depends-on-earlier-calls", fmt.Sprintf("%s filled with %s after %q on the same node: %s; on a fresh node: %s", clipS(ref.Print(tpl)), desc, hist, og, ow), cs)
			return
		}
		if !og.Panicked {
			if d := real.SnapItem(got).Diff(real.SnapItem(want)); d != "" {
				c.Violation("C12/fillhist/stored-values-depend-on-earlier-calls", fmt.Sprintf("%s filled with %s after %q on the same node differs from the same fill of a fresh node: %s", clipS(ref.Print(tpl)), desc, hist, d), cs)
				return
			}
			hist += desc + " "
		} else {
			hist += desc + "(refused) "
			c.Class("num/fill-history-on-one-node/after-a-refused-fill")
		}
	}
}

func runC12(c *ctx) {
	c.Rule = "every numeric factory (I1-I8, U1-U8, F4, F8) x every accepted Go integer type x {type min/max, node min-1/min/max/max+1, 0, -1, +-2^k, +-2^k+-1, random}, through the factory and through FillVariables; float32/float64 arguments incl. NaN/Inf/overflow/rounding; all ints around [0,255] and binary-literal strings for B; strings over all of Unicode and invalid UTF-8 for A; ~3000 variable-name candidates in 8 positions classified by a hand-written recogniser; duplicates, ellipsis placement, ASCII bounds, wrong Go types; message factories and producers over the header constraints. Oracle: math/big domain tables; stored value read back from ToBytes() and String(). non-trivial = argument within 2 of a domain boundary or of the Go type's limits (numeric), any case otherwise; distinct by (factory, Go type, value) Also (rounds 5-8): header values that alias valid ones modulo 2^8/2^16/2^32; out-of-range values among in-range neighbours at every position; one object in two places of a tree; invalid width arguments; a fill after the stamp; small trees encoded side by side. Also (round 9): four fills of one node object with refused fills in between, each compared with the same fill of a fresh twin; ellipsis placements the factory refuses reached by a rename through FillVariables. Also (round 10): messages that have been encoded are stamped again through fourteen session ids around -1, 0, 255|256, 65535|65536 and 2^31-1, each result encoded and compared with the reference (nothing for -1)."
	c.Assume = []string{"a panic of any kind is a refusal", "F4 band between MaxFloat32 and the rounding midpoint: refuse or store MaxFloat32", "binary-literal strings with digit separators and integer types other than int for B: refuse or store exactly"}

	// numeric: boundary candidates per (kind, go type)
	numKinds := []ref.Kind{ref.I1, ref.I2, ref.I4, ref.I8, ref.U1, ref.U2, ref.U4, ref.U8, ref.F4, ref.F8}
	var cands []*big.Int
	add := func(v *big.Int) { cands = append(cands, v) }
	one := big.NewInt(1)
	for k := uint(0); k <= 64; k++ {
		p := new(big.Int).Lsh(one, k)
		for _, d := range []int64{-2, -1, 0, 1, 2} {
			add(new(big.Int).Add(p, big.NewInt(d)))
			add(new(big.Int).Add(new(big.Int).Neg(p), big.NewInt(d)))
		}
	}
	add(big.NewInt(0))
	r := c.rnd.Derive(2)
	for i := 0; i < c.pick(3000, 20000); i++ {
		v := new(big.Int).SetUint64(r.U64() >> uint(r.Intn(64)))
		if r.Bool() {
			v.Neg(v)
		}
		add(v)
	}
	for _, k := range numKinds {
		for _, t := range goIntTypes {
			tlo, thi := goTypeRange(t)
			for _, v := range cands {
				if v.Cmp(tlo) < 0 || v.Cmp(thi) > 0 {
					continue
				}
				c12Eval(c, c12Case{Op: "num", Kind: k.String(), GoT: t, Val: v.String()})
				c12Eval(c, c12Case{Op: "fill", Kind: k.String(), GoT: t, Val: v.String()})
			}
		}
	}
	// floats
	for _, k := range []ref.Kind{ref.F4, ref.F8} {
		special64 := []uint64{0x7FF0000000000000, 0xFFF0000000000000, 0x7FF8000000000001, 0xFFF8000000000000, 0x7FF0000000000001,
			math.Float64bits(math.MaxFloat32), math.Float64bits(math.MaxFloat32) + 1, 0x47EFFFFFEFFFFFFF, 0x47EFFFFFF0000000, 0x47EFFFFFF0000001,
			math.Float64bits(-math.MaxFloat32) + 1, math.Float64bits(math.MaxFloat64), math.Float64bits(-math.MaxFloat64), 0, 1 << 63, 1,
			math.Float64bits(1e39), math.Float64bits(-1e39), math.Float64bits(3.5e38)}
		for _, b := range special64 {
			c12Eval(c, c12Case{Op: "float", Kind: k.String(), GoT: "float64", Val: fmt.Sprintf("0x%x", b)})
		}
		for _, b := range []uint32{0x7F800000, 0xFF800000, 0x7FC00000, 0xFFC00001, 0x7F7FFFFF, 0xFF7FFFFF, 0, 0x80000000, 1, 0x00800000} {
			c12Eval(c, c12Case{Op: "float", Kind: k.String(), GoT: "float32", Val: fmt.Sprintf("0x%x", b)})
		}
		for i := 0; i < c.pick(100000, 600000); i++ {
			if r.Bool() {
				c12Eval(c, c12Case{Op: "float", Kind: k.String(), GoT: "float64", Val: fmt.Sprintf("0x%x", r.U64())})
			} else {
				c12Eval(c, c12Case{Op: "float", Kind: k.String(), GoT: "float32", Val: fmt.Sprintf("0x%x", uint32(r.U64()))})
			}
		}
	}
	// binary
	for v := -300; v <= 600; v++ {
		c12Eval(c, c12Case{Op: "binint", Ints: []int{v}, Where: "factory"})
		c12Eval(c, c12Case{Op: "binint", Ints: []int{v}, Where: "fill"})
	}
	for _, v := range []int{math.MinInt64, math.MaxInt64, 1 << 32, -1 << 31, 65536, 1<<8 + 1<<40} {
		c12Eval(c, c12Case{Op: "binint", Ints: []int{v}, Where: "factory"})
	}
	for v := 0; v < 520; v++ {
		c12Eval(c, c12Case{Op: "binstr", Str: fmt.Sprintf("0b%b", v)})
		c12Eval(c, c12Case{Op: "binstr", Str: fmt.Sprintf("0b%09b", v)})
	}
	for _, s := range []string{"0b", "0b2", "0b12", "0b1x", "0b1 ", "0b 1", "0b-1", "0b+1", "0b1.0", "0b1e1", "0bb1", "0b0b1", "0b१", "0b1_0", "0b_1", "0b1__0", "0b1_",
		"0b" + strings.Repeat("1", 64), "0b" + strings.Repeat("1", 65), "0b" + strings.Repeat("0", 70) + "1", "0b\x00", "0bFF", "0b10000000000000000000000000000000000000000000000000000000000000000"} {
		c12Eval(c, c12Case{Op: "binstr", Str: s})
	}
	for i := 0; i < c.pick(2000, 100000); i++ {
		n := 1 + r.Intn(10)
		var sb strings.Builder
		sb.WriteString("0b")
		for j := 0; j < n; j++ {
			sb.WriteByte("0101010123_ xe.-"[r.Intn(16)])
		}
		c12Eval(c, c12Case{Op: "binstr", Str: sb.String()})
	}
	// ASCII
	for cp := rune(0); cp <= 0x10FFFF; cp += rune(c.pick(97, 1)) {
		if cp >= 0xD800 && cp <= 0xDFFF {
			continue
		}
		if cp > 0x3000 && !c.thorough && cp%4099 != 0 {
			continue
		}
		where := "factory"
		if cp%3 == 0 {
			where = "fill"
		}
		c12Eval(c, c12Case{Op: "ascii", Str: "a" + string(cp) + "b", Where: where})
	}
	for cp := rune(0); cp < 0x300; cp++ {
		c12Eval(c, c12Case{Op: "ascii", Str: string(cp), Where: "factory"})
		c12Eval(c, c12Case{Op: "ascii", Str: string(cp), Where: "fill"})
	}
	for _, s := range []string{"", "\xff", "a\x80", "\xc3", "\xc3\x28", "\xe2\x82", "ok\xf0\x9f\x98", "\xed\xa0\x80", "\xc0\x80", string([]byte{0x7f, 0x80})} {
		c12Eval(c, c12Case{Op: "ascii", Str: s, Where: "factory"})
		c12Eval(c, c12Case{Op: "ascii", Str: s, Where: "fill"})
	}
	g := gen.New(r, gen.Profile{})
	for i := 0; i < c.pick(3000, 100000); i++ {
		b := g.ASCII(r.Intn(20))
		if r.Chance(1, 4) && len(b) > 0 {
			b[r.Intn(len(b))] = byte(128 + r.Intn(128))
		}
		c12Eval(c, c12Case{Op: "ascii", Str: string(b), Where: []string{"factory", "fill"}[r.Intn(2)]})
	}
	// variable names
	nameParts := []string{"\u212a", "\u017f", "\u0131", "\u0130", "\uff21", "a", "Z", "_", "9", "0", "x1", "[", "]", "[0]", "[12]", "[]", "[a]", "[-1]", "[ 1]", "[1 ]", ".", "...", " ", "\t", "\n", "-", "é", "漢", "́", " ", "१", "$", "", "[0][1]", "ab_9", "\x00", "\xff"}
	seen := map[string]bool{}
	tryName := func(n string) {
		if !seen[n] {
			seen[n] = true
			c12Eval(c, c12Case{Op: "varname", Str: n})
		}
	}
	for _, a := range nameParts {
		for _, b := range nameParts {
			tryName(a + b)
			for _, d := range []string{"[0]", "x", "[3", "]", "\n", "9", "..."} {
				tryName(a + b + d)
			}
		}
	}
	for _, n := range []string{"...", "...[0]", "...[12]", "....", "..", "...[", "...[]", "...[a]", "...[0][1]", "...[0]x", " ...", "... ", "x...", "abc\n", "\nabc", "abc\r\n", "a b", "a[1]b", "a[1][2][3]", "a[007]", "a[99999999999999999999]", "_", "__", "_9", "L", "A", "T", "F4", "var", "a" + strings.Repeat("b", 300)} {
		tryName(n)
	}
	c.Extra["varname_candidates"] = len(seen)
	for _, w := range []string{"duplicates", "ellipsis", "asciibounds", "wrongtypes"} {
		c12Eval(c, c12Case{Op: "structure", Where: w})
	}
	// small trees of small items, built by the factories one after the other: each holds and encodes exactly the values it
	// was given, also when an item of the same type and size was encoded just before or sits next to it in the same list
	{
		var prevGot, prevWant []byte
		var prevTree *ref.Item
		for i := 0; i < c.pick(20000, 200000); i++ {
			g := gen.New(r, gen.Profile{MaxDepth: r.Intn(4), Budget: 40, MaxKids: 3, MaxElems: 3})
			t := g.Tree()
			if i%3 == 0 {
				// siblings and nested lists of equal size and type
				leaf := func() *ref.Item { return g.Scalar(ref.U1) }
				a, b, d := leaf(), leaf(), leaf()
				t = &ref.Item{Kind: ref.L, Children: []*ref.Item{a, {Kind: ref.L, Children: []*ref.Item{b, d}}}}
				if i%2 == 0 {
					t.Children = append(t.Children, &ref.Item{Kind: ref.L, Children: []*ref.Item{leaf(), leaf()}})
				}
			}
			var got []byte
			if o := real.Try(func() { got = real.Build(t).ToBytes() }); o.Panicked {
				continue
			}
			want := ref.Encode(t)
			c.NoteBulk(1, 1)
			c.Class("structure/small-trees-encoded-side-by-side")
			if !bytes.Equal(got, want) {
				c.Violation("C12/structure/encoded-values-differ", fmt.Sprintf("%s encodes to %x, its values encode to %x", clipS(ref.Print(t)), clipB(got), clipB(want)), c12Case{Op: "tree", Str: ref.Print(t)})
				break
			}
			if prevGot != nil && !bytes.Equal(prevGot, prevWant) {
				c.Violation("C12/structure/earlier-encoding-changed", fmt.Sprintf("the bytes returned for %s read %x after %s was encoded; they were %x", clipS(ref.Print(prevTree)), clipB(prevGot), clipS(ref.Print(t)), clipB(prevWant)), c12Case{Op: "tree", Str: ref.Print(prevTree)})
				break
			}
			prevGot, prevWant, prevTree = got, want, t
		}
	}
	for i := 0; i < c.pick(6000, 60000); i++ {
		c12Eval(c, c12Case{Op: "fillhist", Ints: []int{int(r.U64() >> 2)}})
	}
	// messages
	names := []string{"", "name", "a b", "a\tb", "a\nb", " a", "a ", "a\rb", "a\vb", "a\fb", "漢字", "a<b>.c", "//"}
	for _, s := range []int{-1, 0, 1, 127, 128, 255, 1 << 31, -1 << 31} {
		for _, f := range []int{-1, 0, 1, 2, 255, 256, 257, 1 << 31} {
			for _, w := range []int{-1, 0, 1, 2, 3} {
				for _, sess := range []int{-2, -1, 0, 1, 65535, 65536, 1 << 31} {
					for _, d := range []string{"H->E", "H<-E", "H<->E", "", "h->e", "E->H", "H<->E "} {
						name := names[(s+f+w+sess+len(d))&0xFFFF%len(names)]
						if r.Chance(1, 3) {
							name = names[r.Intn(len(names))]
						}
						c12Eval(c, c12Case{Op: "msg", Ints: []int{s, f, w, sess}, Str: name, Where: d})
					}
				}
			}
		}
	}
	// several values in one item: one out-of-range value among in-range neighbours of either sign, at every position (a
	// range check that folds the values of an item together must not let a neighbour vouch for it), by factory and by fill
	for _, k := range []ref.Kind{ref.I1, ref.I2, ref.I4, ref.U1, ref.U2, ref.U4, ref.B} {
		var lo, hi int64
		if k.IsInt() {
			lo, hi = gen.IntBounds(k.Width())
		} else {
			lo, hi = 0, int64(gen.UintMax(k.Width()))
		}
		goods := []int64{lo, lo + 1, hi, hi - 1, 0, 1}
		if k.IsInt() {
			goods = append(goods, -1, -2, lo/2)
		}
		bads := []int64{lo - 1, lo - 2, hi + 1, hi + 2, lo - 128, hi + 256, 2*lo - 1, 2*hi + 2}
		for _, bad := range bads {
			for _, g1 := range goods {
				for _, g2 := range goods {
					for pos := 0; pos < 3; pos++ {
						seq := []int64{g1, g2}
						seq = append(seq[:pos], append([]int64{bad}, seq[pos:]...)...)
						args := make([]interface{}, len(seq))
						for i, v := range seq {
							args[i] = int(v)
						}
						o := real.Try(func() { real.Factory(k, args...) })
						c.NoteBulk(1, 1)
						c.Class("num/out-of-domain-among-neighbours")
						if !o.Panicked {
							c.Violation("C12/numseq/factory/"+k.String(), fmt.Sprintf("%s item with values %v accepted (%d is out of range)", k, seq, bad), c12Case{Op: "numseq", Kind: k.String(), Str: fmt.Sprint(seq)})
							break
						}
						// the same through a fill: every position is a variable
						names := []interface{}{"va", "vb", "vc"}
						fill := map[string]interface{}{"va": args[0], "vb": args[1], "vc": args[2]}
						o2 := real.Try(func() { real.Factory(k, names...).FillVariables(fill) })
						if !o2.Panicked {
							c.Violation("C12/numseq/fill/"+k.String(), fmt.Sprintf("%s variables filled with %v accepted (%d is out of range)", k, seq, bad), c12Case{Op: "numseq", Kind: k.String(), Str: fmt.Sprint(seq)})
							break
						}
					}
				}
			}
		}
		// all values in range: stored exactly, in order
		for _, g1 := range goods {
			for _, g2 := range goods {
				for _, g3 := range goods {
					it := &ref.Item{Kind: k}
					var args []interface{}
					for _, v := range []int64{g1, g2, g3} {
						if k.IsInt() {
							it.Slots = append(it.Slots, ref.Slot{Int: v})
						} else {
							it.Slots = append(it.Slots, ref.Slot{Uint: uint64(v)})
						}
						args = append(args, int(v))
					}
					var got []byte
					o := real.Try(func() { got = real.Factory(k, args...).ToBytes() })
					c.NoteBulk(1, 1)
					if o.Panicked || !bytes.Equal(got, ref.Encode(it)) {
						c.Violation("C12/numseq/in-range/"+k.String(), fmt.Sprintf("%s item with values %v: %s bytes %x want %x", k, args, o, got, ref.Encode(it)), c12Case{Op: "numseq", Kind: k.String(), Str: fmt.Sprint(args)})
					}
				}
			}
		}
	}
	// the width argument of the numeric factories is 1, 2, 4 or 8 (4 or 8 for floats) and nothing else
	for _, w := range []int{0, -1, -8, 3, 5, 6, 7, 9, 16, 32, 64, 256, 257, 1 << 32, 1<<32 + 1, -(1 << 63)} {
		for name, f := range map[string]func(){
			"int":        func() { _ = ast.NewIntNode(w, 1, 2) },
			"uint":       func() { _ = ast.NewUintNode(w, 0, 0) },
			"uint-empty": func() { _ = ast.NewUintNode(w) },
			"int-var":    func() { _ = ast.NewIntNode(w, "v") },
			"float":      func() { _ = ast.NewFloatNode(w, 1.5) },
		} {
			o := real.Try(f)
			c.NoteBulk(1, 1)
			c.Class("num/width-argument")
			if !o.Panicked {
				c.Violation("C12/num/width-accepted/"+name, fmt.Sprintf("%s factory accepted the width %d", name, w), c12Case{Op: "width", Kind: name, Ints: []int{w}})
			}
		}
	}
	for _, w := range []int{1, 2} {
		if o := real.Try(func() { _ = ast.NewFloatNode(w, 1.5) }); !o.Panicked {
			c.Violation("C12/num/width-accepted/float", fmt.Sprintf("float factory accepted the width %d", w), c12Case{Op: "width", Kind: "float", Ints: []int{w}})
		}
	}
	// one header parameter at a time over values that are far out of range but alias a valid value modulo 2^8, 2^16,
	// 2^32 (a narrower field type must not turn them into valid ones), the others valid
	{
		var wide []int
		for _, base := range []int{-1, 0, 1, 5, 127, 128, 255, 256, 65535, 65536} {
			for _, m := range []int{1 << 8, 1 << 16, 1 << 31, 1 << 32, 1 << 33, 1 << 48, -(1 << 8), -(1 << 16), -(1 << 32), 1 << 62} {
				wide = append(wide, base+m)
			}
		}
		wide = append(wide, math.MaxInt64, math.MinInt64, math.MaxInt32, math.MinInt32, math.MaxInt32+1, math.MaxUint32, math.MaxUint32+1, math.MinInt64+1, math.MaxInt64-65535)
		for _, v := range wide {
			for pos := 0; pos < 4; pos++ {
				ints := []int{1, 1, 1, 7}
				ints[pos] = v
				c.Class("msg/far-out-of-range-parameter")
				c12Eval(c, c12Case{Op: "msg", Ints: ints, Str: "n", Where: "H->E"})
				ints2 := []int{6, 12, 0, 65535}
				ints2[pos] = v
				c12Eval(c, c12Case{Op: "msg", Ints: ints2, Str: "", Where: "H<-E"})
			}
		}
	}
	c.Required = []string{"num/fill-history-on-one-node", "num/fill-history-on-one-node/after-a-refused-fill", "msg/far-out-of-range-parameter", "num/width-argument", "num/out-of-domain-among-neighbours", "num/in-domain", "num/out-of-domain", "num/int-into-float", "float/non-finite", "float/overflow", "float/in-range", "binstr/valid", "binstr/invalid", "ascii/non-ascii-unicode", "ascii/invalid-utf8", "varname/valid", "varname/invalid", "varname/ellipsis", "msg/NewDataMessage", "msg/NewHSMSDataMessage", "msg/SetSessionID", "msg/restamp-of-an-encoded-message", "msg/fill-after-stamp", "structure/small-trees-encoded-side-by-side"}
}

func replayC12(c *ctx, raw json.RawMessage) {
	var cs c12Case
	if json.Unmarshal(raw, &cs) == nil {
		c12Eval(c, cs)
	}
}
