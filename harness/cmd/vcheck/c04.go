package main

import (
	"encoding/json"
	"fmt"
	"math"

	"verifharness/internal/gen"
	"verifharness/internal/real"
	"verifharness/internal/ref"
	"verifharness/internal/rng"
	"verifharness/internal/smltext"

	"github.com/wolimst/lib-secs2-hsms-go/pkg/ast"
)

// C04 — SML print -> parse round trip; the printed form of a parsed message is a fixed point.

type c04Case struct {
	Dir  string   `json:"direction"` // print-parse | fixed-point
	Msg  *ref.Msg `json:"msg,omitempty"`
	Text string   `json:"text,omitempty"`
}

func init() { register("C04", "exploration", runC04, replayC04) }

// asciiClass names the hostile characters a tree's strings contain (for signatures).
func asciiClass(it *ref.Item) string {
	q, bs, ctl := false, false, false
	var walk func(x *ref.Item)
	walk = func(x *ref.Item) {
		if x == nil || x.Var != "" {
			return
		}
		if x.Kind == ref.L {
			for _, c := range x.Children {
				walk(c)
			}
		}
		for _, c := range x.Str {
			switch {
			case c == '"':
				q = true
			case c == '\\':
				bs = true
			case c < 32 || c == 127:
				ctl = true
			}
		}
	}
	walk(it)
	s := ""
	if q {
		s += "+quote"
	}
	if bs {
		s += "+backslash"
	}
	if ctl {
		s += "+control"
	}
	if s == "" {
		s = "plain"
	}
	return s
}

// completeBoth fills both messages with the same assignment (by variable
// position) and compares the encodings.
func completeBoth(r *rng.R, model *ref.Msg, a, b *ast.DataMessage) string {
	if model.Item == nil {
		return ""
	}
	va, vb := a.Variables(), b.Variables()
	if len(va) != len(vb) {
		return fmt.Sprintf("different number of variables: %q vs %q", va, vb)
	}
	// ellipses first, same counts by position
	counts := map[string]int{}
	ca, cb := map[string]interface{}{}, map[string]interface{}{}
	for i, v := range va {
		if ref.IsEllipsisName(v) {
			n := r.Intn(3)
			counts[model.Item.Vars()[i]] = n
			ca[v] = n
			cb[vb[i]] = n
		}
	}
	exp := model.Item
	var oa, ob real.Outcome
	if len(counts) > 0 {
		exp = ref.Expand(model.Item, counts)
		oa = real.Try(func() { a = a.FillVariables(ca) })
		ob = real.Try(func() { b = b.FillVariables(cb) })
		if oa.Panicked && ob.Panicked {
			// both refuse alike (e.g. a generated name x[1] collides with an existing x[1]): out of scope here
			return ""
		}
		if oa.Panicked || ob.Panicked {
			return fmt.Sprintf("expansion: original %s, re-parsed %s", oa, ob)
		}
	}
	g := gen.New(r, gen.Profile{})
	sub := fullAssignment(g, exp)
	va, vb = a.Variables(), b.Variables()
	ev := exp.Vars()
	if len(va) != len(ev) || len(vb) != len(ev) {
		return fmt.Sprintf("variables after expansion: %q vs %q (model %q)", va, vb, ev)
	}
	ra, rb := map[string]interface{}{}, map[string]interface{}{}
	for i, name := range ev {
		v, ok := sub[name]
		if !ok {
			continue
		}
		ra[va[i]] = rawOf(v)
		rb[vb[i]] = rawOf(v)
	}
	oa = real.Try(func() {
		a = a.FillVariables(ra).SetWaitBit(model.Function%2 == 1).SetSessionIDAndSystemBytes(77, []byte{1, 2, 3, 4})
	})
	ob = real.Try(func() {
		b = b.FillVariables(rb).SetWaitBit(model.Function%2 == 1).SetSessionIDAndSystemBytes(77, []byte{1, 2, 3, 4})
	})
	if oa.Panicked || ob.Panicked {
		return fmt.Sprintf("completion: original %s, re-parsed %s", oa, ob)
	}
	ba, bb := a.ToBytes(), b.ToBytes()
	if len(ba) == 0 || string(ba) != string(bb) {
		return fmt.Sprintf("bytes after completion differ: %x vs %x", clipB(ba), clipB(bb))
	}
	return ""
}

// c04PrintParse: message -> String() -> sml.Parse -> same message.
func c04PrintParse(c *ctx, cs c04Case) {
	m := cs.Msg
	var orig *ast.DataMessage
	if o := real.Try(func() { orig = real.BuildMsg(m) }); o.Panicked {
		c.Violation("C04/constructor-refused-expressible-message", o.String()+" "+clipS(ref.PrintMsg(m)), cs)
		return
	}
	text := orig.String()
	ac := asciiClass(m.Item)
	c.Note(rng.HashStr(text), nonEmptyPayload(m.Item) || (m.Item != nil && len(m.Item.Vars()) > 0))
	c.Class("print-parse/ascii=" + ac)
	// the printed form is the documented one
	if d := ref.MatchPrinted(text, ref.MsgSegs(m)); d != "" {
		c.Violation("C04/printed-form-differs-from-documented/"+ac, d, cs)
		return
	}
	msgs, errs, warns, o := smlParse(text)
	sig := "ascii=" + ac
	if o.Panicked {
		c.Violation("C04/parser-panicked/"+sig, o.String()+" text="+clipS(text), cs)
		return
	}
	if len(errs) > 0 || len(warns) > 0 || len(msgs) != 1 {
		c.Violation("C04/printed-form-not-accepted/"+sig, fmt.Sprintf("messages=%d errors=%q warnings=%q text=%q", len(msgs), errs, warns, clipS(text)), cs)
		return
	}
	p := msgs[0]
	a, b := real.Snap(orig), real.Snap(p)
	diff := ""
	switch {
	case a.Name != b.Name:
		diff = fmt.Sprintf("name %q -> %q", a.Name, b.Name)
	case a.Stream != b.Stream || a.Function != b.Function:
		diff = fmt.Sprintf("S%dF%d -> S%dF%d", a.Stream, a.Function, b.Stream, b.Function)
	case a.WaitBit != b.WaitBit:
		diff = fmt.Sprintf("wait bit %s -> %s", a.WaitBit, b.WaitBit)
	case a.Direction != b.Direction:
		diff = fmt.Sprintf("direction %s -> %s", a.Direction, b.Direction)
	case a.Str != b.Str:
		diff = fmt.Sprintf("printed form %q -> %q", clipS(a.Str), clipS(b.Str))
	case !real.EqStrs(ref.NormEllipsis(a.Vars), ref.NormEllipsis(b.Vars)):
		diff = fmt.Sprintf("variables %q -> %q", a.Vars, b.Vars)
	case canonicalEllipses(a.Vars) && !real.EqStrs(a.Vars, b.Vars):
		// the original numbers its ellipses 0,1,2.. in order of appearance: the same names must come back
		diff = fmt.Sprintf("variables %q -> %q (ellipsis numbering)", a.Vars, b.Vars)
	}
	if canonicalEllipses(a.Vars) {
		c.Class("print-parse/ellipses-numbered-in-order")
	}
	if diff != "" {
		c.Violation("C04/reparsed-message-differs/"+sig, diff+" text="+clipS(text), cs)
		return
	}
	t := *m
	t.Session = -1
	if d := completeBoth(rng.New(rng.HashStr(text)), &t, orig.SetSessionIDAndSystemBytes(-1, nil), p); d != "" {
		c.Violation("C04/completed-bytes-differ/"+sig, d+" text="+clipS(text), cs)
		return
	}
	// a message derived by expanding one of several ellipses is expressible too: its printed form parses back to it
	if d := derivedRoundTrip(orig, a.Vars); d != "" {
		c.Violation("C04/derived-message-differs/"+sig, d+" text="+clipS(text), cs)
		return
	}
	if c.WantSample() && len(text) < 260 && len(a.Vars) > 0 {
		c.Sample(map[string]interface{}{"direction": "print-parse", "printed": text, "variables": a.Vars})
	}
}

// canonicalEllipses: at least one ellipsis and the names are exactly
// "...[0]", "...[1]", .. in order of appearance (what the parser assigns).
func canonicalEllipses(vars []string) bool {
	k := 0
	for _, v := range vars {
		if ref.IsEllipsisName(v) {
			if v != fmt.Sprintf("...[%d]", k) {
				return false
			}
			k++
		}
	}
	return k > 0
}

// derivedRoundTrip expands each ellipsis of a message with at least two of
// them (one at a time, n = 0 and 1) and sends every derived message through
// print -> parse; when the derived message numbers its remaining ellipses in
// order of appearance, the re-parsed one must name them alike.
func derivedRoundTrip(orig *ast.DataMessage, vars []string) string {
	var ells []string
	for _, v := range vars {
		if ref.IsEllipsisName(v) {
			ells = append(ells, v)
		}
	}
	if len(ells) < 2 || len(ells) > 6 {
		return ""
	}
	for _, e := range ells {
		for n := 0; n <= 1; n++ {
			var d *ast.DataMessage
			if o := real.Try(func() { d = orig.FillVariables(map[string]interface{}{e: n}) }); o.Panicked {
				continue // refused expansions (name collisions) are C10/C12 matters
			}
			ds := real.Snap(d)
			if len(ds.Str) > 20000 {
				continue
			}
			msgs, errs, warns, o := smlParse(ds.Str)
			if o.Panicked || len(errs) > 0 || len(warns) > 0 || len(msgs) != 1 {
				return fmt.Sprintf("after %s=%d the printed form %q is not accepted: messages=%d errors=%q warnings=%q %s", e, n, clipS(ds.Str), len(msgs), errs, warns, o)
			}
			ps := real.Snap(msgs[0])
			if ps.Str != ds.Str {
				return fmt.Sprintf("after %s=%d: printed form %q -> %q", e, n, clipS(ds.Str), clipS(ps.Str))
			}
			if !real.EqStrs(ref.NormEllipsis(ds.Vars), ref.NormEllipsis(ps.Vars)) || (canonicalEllipses(ds.Vars) && !real.EqStrs(ds.Vars, ps.Vars)) {
				return fmt.Sprintf("after %s=%d: variables %q -> %q", e, n, ds.Vars, ps.Vars)
			}
		}
	}
	return ""
}

// msgEqualVerbatim compares two parser-produced messages observably.
func msgEqualVerbatim(a, b *ast.DataMessage) string {
	return real.Snap(a).Diff(real.Snap(b))
}

// c04FixedPoint: for an accepted text, the printed form of each returned
// message parses back to an equal message.
func c04FixedPoint(c *ctx, cs c04Case) {
	msgs, errs, _, o := smlParse(cs.Text)
	c.Note(rng.HashStr(cs.Text), true)
	if o.Panicked || len(errs) > 0 {
		c.Class("fixed-point/text-not-accepted(skipped)")
		return
	}
	c.Class("fixed-point/accepted-text")
	for i, p := range msgs {
		printed := p.String()
		again, errs2, warns2, o2 := smlParse(printed)
		if o2.Panicked || len(errs2) > 0 || len(warns2) > 0 || len(again) != 1 {
			c.Violation("C04/fixed-point/printed-form-not-accepted", fmt.Sprintf("message %d of %q prints %q: messages=%d errors=%q warnings=%q (%s)", i, clipS(cs.Text), clipS(printed), len(again), errs2, warns2, o2), cs)
			return
		}
		if d := msgEqualVerbatim(p, again[0]); d != "" {
			c.Violation("C04/fixed-point/reparsed-differs", fmt.Sprintf("message %d of %q: %s", i, clipS(cs.Text), d), cs)
			return
		}
	}
}

func c04Eval(c *ctx, cs c04Case) {
	if cs.Dir == "fixed-point" {
		c04FixedPoint(c, cs)
	} else {
		c04PrintParse(c, cs)
	}
}

// expressibleTree draws a tree that SML can express (no keyword names: the
// generator already avoids them; no empty-item children: it never makes them).
func expressibleProfile(r *rng.R, i int) gen.Profile {
	p := gen.Profile{MaxDepth: 1 + r.Intn(5), Vars: i%3 != 0, Ellipsis: i%4 == 1, Budget: 300, MaxKids: 4, MaxElems: 5}
	if i%50 == 7 {
		p.Budget = 3000
		p.Boundary = true
	}
	return p
}

func runC04(c *ctx) {
	c.Rule = "messages built by the constructors (every stream/function pair, 3 wait-bit states, 3 directions, names from a recogniser of what the header lexer reads as one name incl. Unicode and punctuation, trees over all 14 formats with variables, bounded ASCII variables, nested ellipses, every character 0..127 in strings, boundary numbers, floats in shortest form) are printed, checked against the documented print form, parsed (exactly one message, no error, no warning), compared field by field and after completing both sides with the same assignment; conversely every accepted text from the literal/layout generators is parsed, each message printed and parsed again (must be equal: fixed point). non-trivial = non-empty payload or a variable; distinct by printed text Also (rounds 4-8): Variables() verbatim where the original numbers its ellipses in order; messages derived by expanding one ellipsis round-tripped; ellipsis-before-a-list-with-ellipsis shapes; ASCII upper bounds at and beyond 2^24; the same decimal text under F4 and F8 in either order and across messages; the smlParse history devices (probe parse, caller clears the result and parses again). Also (round 10): messages that share one list object (two parents built by the factory, two parsed templates filled with it) are each printed, parsed back and compared after all of them exist."
	c.Assume = []string{"variable base names are not SML keywords", "message names come from gen.NameOK (what the header lexer reads as one name)", "ellipsis names are compared by position"}

	// every stream/function pair x wait-bit state x direction at least once
	c.parallel(128*256, func(i int, r *rng.R) {
		g := gen.New(r, gen.Profile{MaxDepth: 1, Vars: true, Budget: 40})
		var it *ref.Item
		if i%5 != 0 {
			it = g.Tree()
		}
		m := g.Msg(it, false)
		m.Session = -1
		m.Stream, m.Function = i/256, i%256
		m.W = (i / 3) % 3
		if m.W == 1 && m.Function%2 == 0 {
			m.W = 2
		}
		m.Dir = gen.Directions[i%3]
		c04Eval(c, c04Case{Dir: "print-parse", Msg: m})
	})
	n := c.pick(30000, 900000)
	c.parallel(n, func(i int, r *rng.R) {
		g := gen.New(r, expressibleProfile(r, i))
		var it *ref.Item
		if !r.Chance(1, 15) {
			it = g.Tree()
		}
		m := g.Msg(it, false)
		m.Session = -1
		c04Eval(c, c04Case{Dir: "print-parse", Msg: m})
	})
	// strings: every character, runs of control characters, leading/trailing blanks
	r := c.rnd.Derive(4)
	g := gen.New(r, gen.Profile{})
	for ch := 0; ch < 128; ch++ {
		for _, s := range [][]byte{{byte(ch)}, {'a', byte(ch), 'b'}, {byte(ch), byte(ch)}, {' ', byte(ch), ' '}} {
			m := g.Msg(&ref.Item{Kind: ref.A, Str: s}, false)
			m.Session = -1
			c.Class("every-ascii-character")
			c04Eval(c, c04Case{Dir: "print-parse", Msg: m})
		}
	}
	// deep nesting (the printed form of any tree the constructors build must parse back)
	for _, depth := range []int{50, 99, 100, 101, 120, 250, c.pick(600, 2500)} {
		it := &ref.Item{Kind: ref.U1, Slots: []ref.Slot{{Uint: 7}, {Var: "deep"}}}
		for i := 0; i < depth; i++ {
			it = &ref.Item{Kind: ref.L, Children: []*ref.Item{it}}
		}
		m := g.Msg(it, false)
		m.Session = -1
		c.Class("deep-nesting")
		c04Eval(c, c04Case{Dir: "print-parse", Msg: m})
	}
	// an ellipsis followed, in the same list, by lists that have their own ellipses (numbering is by appearance, not by where lists close)
	for depth := 1; depth <= 4; depth++ {
		for shape := 0; shape < 8; shape++ {
			k := 0
			var build func(d int) *ref.Item
			build = func(d int) *ref.Item {
				l := &ref.Item{Kind: ref.L, Children: []*ref.Item{{Kind: ref.U1, Slots: []ref.Slot{{Var: fmt.Sprintf("v%d", d)}}}}}
				if shape&1 == 1 && d < depth {
					l.Children = append(l.Children, build(d+1)) // a list with an ellipsis before this list's ellipsis
				}
				l.Children = append(l.Children, &ref.Item{Var: "pending"})
				if d < depth {
					l.Children = append(l.Children, build(d+1))
					if shape&2 == 2 {
						l.Children = append(l.Children, &ref.Item{Kind: ref.A, Str: []byte("x")})
					}
					if shape&4 == 4 {
						l.Children = append(l.Children, build(d+1))
					}
				}
				return l
			}
			it := build(0)
			// unique variable names, ellipses numbered in order of appearance
			var number func(x *ref.Item)
			number = func(x *ref.Item) {
				for _, ch := range x.Children {
					switch {
					case ch.Var == "pending":
						ch.Var = fmt.Sprintf("...[%d]", k)
						k++
					case ch.Kind == ref.L && ch.Var == "":
						number(ch)
					case len(ch.Slots) == 1 && ch.Slots[0].Var != "":
						ch.Slots[0].Var = fmt.Sprintf("%s_%d", ch.Slots[0].Var, k)
					}
				}
			}
			number(it)
			m := g.Msg(it, false)
			m.Session = -1
			c.Class("ellipsis-before-a-list-with-ellipsis")
			c04Eval(c, c04Case{Dir: "print-parse", Msg: m})
		}
	}
	// the same decimal text under both float widths, in either order, in one item list and across consecutive messages
	// (what a literal means depends on the item it stands in, not on where the text was seen before)
	{
		vals := []float64{0.1, 2.7, 6.02e23, 1e-3, 3.3, 1.1e-10, 123456.789, 0.3}
		f4 := func(v float64) *ref.Item {
			return &ref.Item{Kind: ref.F4, Slots: []ref.Slot{{Uint: uint64(math.Float32bits(float32(v)))}}}
		}
		f8 := func(v float64) *ref.Item {
			return &ref.Item{Kind: ref.F8, Slots: []ref.Slot{{Uint: math.Float64bits(v)}}}
		}
		var texts []string
		for _, v := range vals {
			for _, it := range []*ref.Item{
				{Kind: ref.L, Children: []*ref.Item{f4(v), f8(v)}},
				{Kind: ref.L, Children: []*ref.Item{f8(v), f4(v), f8(v)}},
				{Kind: ref.L, Children: []*ref.Item{{Kind: ref.L, Children: []*ref.Item{f4(v)}}, f8(v)}},
			} {
				m := g.Msg(it, false)
				m.Session = -1
				c.Class("same-float-text-under-both-widths")
				c04Eval(c, c04Case{Dir: "print-parse", Msg: m})
			}
			m4, m8 := g.Msg(f4(v), false), g.Msg(f8(v), false)
			m4.Session, m8.Session = -1, -1
			texts = append(texts, ref.PrintMsg(m4)+"\n"+ref.PrintMsg(m8)+"\n", ref.PrintMsg(m8)+"\n"+ref.PrintMsg(m4)+"\n"+ref.PrintMsg(m8)+"\n")
		}
		for _, t := range texts {
			c04Eval(c, c04Case{Dir: "fixed-point", Text: t})
		}
		// the literal texts have now been seen under F4: every F8 message once more
		for _, v := range vals {
			m := g.Msg(f8(v), false)
			m.Session = -1
			c04Eval(c, c04Case{Dir: "print-parse", Msg: m})
		}
	}
	// round 10: messages that SHARE an item object (one list built once, put into two parents by the factory or filled
	// into a list variable of two parsed templates): each message still prints what it lists, and its printed form
	// parses back to it - checked for both only after both exist
	{
		check := func(m *ast.DataMessage, what string) {
			c.NoteBulk(1, 1)
			ms := real.Snap(m)
			again, errs, warns, o := smlParse(ms.Str)
			cs := c04Case{Dir: "shared-item", Text: ms.Str}
			if o.Panicked || len(errs) > 0 || len(warns) > 0 || len(again) != 1 {
				c.Violation("C04/printed-form-not-accepted/shared-item", fmt.Sprintf("%s: printed form %q: messages=%d errors=%q warnings=%q (%s)", what, clipS(ms.Str), len(again), errs, warns, o), cs)
				return
			}
			ps := real.Snap(again[0])
			if ps.Str != ms.Str || ps.Header != ms.Header || !real.EqStrs(ref.NormEllipsis(ms.Vars), ref.NormEllipsis(ps.Vars)) {
				c.Violation("C04/reparsed-differs/shared-item", fmt.Sprintf("%s: the message lists %q and prints %q; its printed form parses to a message that lists %q and prints %q", what, ms.Vars, clipS(ms.Str), ps.Vars, clipS(ps.Str)), cs)
			}
		}
		for nsub := 1; nsub <= 9; nsub++ {
			for form := 0; form < 3; form++ {
				var args []interface{}
				var one []interface{}
				for i := 0; i < nsub; i++ {
					n := fmt.Sprintf("c%d_%d", nsub, i)
					one = append(one, n)
					switch (i + form) % 3 {
					case 0:
						args = append(args, ast.NewUintNode(1, n))
					case 1:
						args = append(args, n)
					default:
						args = append(args, ast.NewListNode(ast.NewBooleanNode(n)))
					}
				}
				if form == 2 {
					args = []interface{}{ast.NewIntNode(4, one...)}
				}
				o := real.Try(func() {
					sub := ast.NewListNode(args...)
					m1 := ast.NewDataMessage("first", 1, 1, 1, "H->E", ast.NewListNode(sub, ast.NewUintNode(1, "p1a"), "p1b"))
					check(m1, "first parent alone")
					m2 := ast.NewDataMessage("second", 1, 3, 1, "H->E", ast.NewListNode(sub, ast.NewIntNode(2, "q1"), "q2", ast.NewBinaryNode("q3")))
					check(m2, "second parent around the same list")
					check(m1, "first parent after the second was built")
					t1, _, _, _ := smlParse("S2F1 W H->E t1\n<L slot <U1 ta> <A tb>> .")
					t2, _, _, _ := smlParse("S2F3 W H<-E t2\n<L slot <F4 ua ub> <L <B uc>> ud> .")
					if len(t1) == 1 && len(t2) == 1 {
						f1 := t1[0].FillVariables(map[string]interface{}{"slot": sub})
						check(f1, "first template filled with the list")
						f2 := t2[0].FillVariables(map[string]interface{}{"slot": sub})
						check(f2, "second template filled with the same list")
						check(f1, "first filled template after the second")
						check(m1, "first parent at the end")
					}
				})
				c.Class("messages-sharing-an-item-object")
				if o.Panicked {
					c.Violation("C04/shared-item/refused", o.String(), c04Case{Dir: "shared-item"})
				}
			}
		}
	}
	// converse: accepted texts with varied literal forms and layouts
	c.parallel(c.pick(20000, 500000), func(i int, r *rng.R) {
		g := gen.New(r, expressibleProfile(r, i))
		var it *ref.Item
		if !r.Chance(1, 15) {
			it = g.Tree()
		}
		k := 1 + r.Intn(3)
		var toks []smltext.Tok
		for j := 0; j < k; j++ {
			m := g.Msg(it, false)
			if r.Chance(1, 4) {
				m.Dir = "" // missing direction: a warning, still accepted
			}
			st := &smltext.NumStyle{R: r, Variety: true}
			toks = append(toks, smltext.MsgToks(st, m, r.Bool())...)
			it = g.Tree()
		}
		lead, gaps, _ := smltext.Layout(r, toks, smltext.LayoutOpts{Comments: r.Bool(), AddOptional: true, FinalNoEOL: true})
		txt := smltext.Render(toks, lead, gaps, smltext.CaseSpelling(r, toks)).Text
		c04Eval(c, c04Case{Dir: "fixed-point", Text: txt})
	})
	c.Required = []string{"messages-sharing-an-item-object", "print-parse/ascii=plain", "print-parse/ascii=+quote", "print-parse/ascii=+backslash", "print-parse/ascii=+control", "fixed-point/accepted-text", "every-ascii-character", "deep-nesting", "print-parse/ellipses-numbered-in-order", "ellipsis-before-a-list-with-ellipsis", "same-float-text-under-both-widths"}
}

func replayC04(c *ctx, raw json.RawMessage) {
	var cs c04Case
	if json.Unmarshal(raw, &cs) == nil {
		c04Eval(c, cs)
	}
}
