package main

import (
	"encoding/json"
	"fmt"
	"math/big"
	"strings"

	"verifharness/internal/gen"
	"verifharness/internal/real"
	"verifharness/internal/ref"
	"verifharness/internal/rng"
	"verifharness/internal/smltext"

	"github.com/wolimst/lib-secs2-hsms-go/pkg/ast"
)

// C15 — declared item sizes [n], [a..b], [a..], [..b] are enforced.

type c15Case struct {
	Op    string `json:"op"`             // literal | asciivar
	Kind  string `json:"kind"`           // item type
	Form  string `json:"form"`           // n | a..b | a.. | ..b
	Lo    string `json:"lo"`             // decimal (may exceed a machine word), "" when absent
	Hi    string `json:"hi"`             // decimal, "" when absent
	Count int    `json:"count"`          // actual element count of the literal / fill length
	Style int    `json:"style"`          // rendering variant
	Text  string `json:"text,omitempty"` // op=several: the text as parsed (replay re-parses it and prints the diagnostics)
}

func init() { register("C15", "exploration", runC15, replayC15) }

func sizeToken(form, lo, hi string, spaced bool) string {
	return sizeTokenPad(form, lo, hi, spaced, 0)
}

// sizeTokenPad writes the bounds with pad leading zeros (a bound is a decimal number: [010] is ten).
// innerSpacers: what may stand between the brackets, the numbers and the dots of a declaration.
var innerSpacers = []string{" ", "\t", "\n", "\r\n", "\r", " \r\n ", "\n\n", "  "}

func sizeTokenStyled(form, lo, hi string, style, pad int) string {
	if style%4 != 1 {
		return sizeTokenPad(form, lo, hi, false, pad)
	}
	t := sizeTokenPad(form, lo, hi, true, pad)
	return strings.ReplaceAll(t, " ", innerSpacers[(style/4)%len(innerSpacers)])
}

func sizeTokenPad(form, lo, hi string, spaced bool, pad int) string {
	if pad > 0 {
		z := strings.Repeat("0", pad)
		if lo != "" {
			lo = z + lo
		}
		if hi != "" {
			hi = z + hi
		}
	}
	sp := ""
	if spaced {
		sp = " "
	}
	switch form {
	case "n":
		return "[" + sp + lo + sp + "]"
	case "a..b":
		return "[" + sp + lo + sp + ".." + sp + hi + sp + "]"
	case "a..":
		return "[" + lo + sp + ".." + sp + "]"
	default:
		return "[" + sp + ".." + sp + hi + "]"
	}
}

// bounds gives the numeric lower/upper bound (upper nil = unbounded) of a declaration.
func bounds(cs c15Case) (lo, hi *big.Int) {
	lo = big.NewInt(0)
	if cs.Lo != "" {
		lo, _ = new(big.Int).SetString(cs.Lo, 10)
	}
	switch cs.Form {
	case "n":
		hi = lo
	case "a..":
		hi = nil
	default:
		hi, _ = new(big.Int).SetString(cs.Hi, 10)
	}
	return
}

func within(n int, lo, hi *big.Int) bool {
	v := big.NewInt(int64(n))
	if v.Cmp(lo) < 0 {
		return false
	}
	return hi == nil || v.Cmp(hi) <= 0
}

func c15Literal(c *ctx, cs c15Case) {
	k, _ := ref.KindByName(cs.Kind)
	r := rng.New(rng.HashStr(fmt.Sprint(cs)))
	g := gen.New(r, gen.Profile{PrintOnly: cs.Style%2 == 0})
	it := &ref.Item{Kind: k}
	switch {
	case k == ref.L:
		for i := 0; i < cs.Count; i++ {
			it.Children = append(it.Children, g.Scalar(ref.Kind(1+r.Intn(int(ref.NKinds)-1))))
		}
	case k == ref.A:
		it.Str = g.ASCII(cs.Count)
	default:
		for i := 0; i < cs.Count; i++ {
			it.Slots = append(it.Slots, g.Value(k))
		}
	}
	st := &smltext.NumStyle{R: r, Variety: cs.Style%3 == 0}
	body := smltext.ItemToks(st, it, false)
	// insert the declaration after the type token
	pad := 0
	if cs.Style%7 == 3 {
		pad = 1 + cs.Style%2
		c.Class("zero-padded-bounds")
	}
	decl := smltext.B(sizeTokenStyled(cs.Form, cs.Lo, cs.Hi, cs.Style, pad))
	toks := []smltext.Tok{smltext.KW("S1F1", smltext.Header), smltext.KW("H->E", smltext.Header)}
	declIdx := len(toks) + 2
	toks = append(toks, body[0], body[1], decl)
	toks = append(toks, body[2:]...)
	toks = append(toks, smltext.B("."))
	var rd smltext.Rendered
	if cs.Style%5 == 2 {
		// random blanks and line breaks (comments are C08's subject and are left out here)
		lead, gaps, _ := smltext.Layout(r, toks, smltext.LayoutOpts{AddOptional: true})
		rd = smltext.Render(toks, lead, gaps, nil)
	} else {
		rd = smltext.Render(toks, "", smltext.Canonical(toks), nil)
	}
	lo, hi := bounds(cs)
	want := within(cs.Count, lo, hi)
	msgs, errs, _, o := smlParse(rd.Text)
	near := false
	for _, b := range []*big.Int{lo, hi} {
		if b != nil {
			d := new(big.Int).Sub(big.NewInt(int64(cs.Count)), b)
			if d.CmpAbs(big.NewInt(1)) <= 0 {
				near = true
			}
		}
	}
	c.Note(rng.HashStr(rd.Text), near)
	c.Class("literal/form=" + cs.Form)
	if want {
		c.Class("literal/within")
	} else {
		c.Class("literal/outside")
	}
	sig := fmt.Sprintf("%s/form=%s", cs.Kind, cs.Form)
	if o.Panicked {
		c.Violation("C15/parser-panicked", o.String(), cs)
		return
	}
	if want {
		if len(errs) > 0 || len(msgs) != 1 {
			c.Violation("C15/within-bounds-rejected/"+sig, fmt.Sprintf("count %d within %s: errors %q text %q", cs.Count, decl.S, errs, clipS(rd.Text)), cs)
			return
		}
		// the item is stored as written
		if d := ref.MatchPrinted(itemPart(msgs[0].String()), ref.PrintSegs(it)); d != "" {
			c.Violation("C15/sized-literal-stored-wrong/"+sig, d, cs)
		}
		return
	}
	if len(errs) == 0 {
		c.Violation("C15/outside-bounds-accepted/"+sig, fmt.Sprintf("count %d outside %s accepted: text %q", cs.Count, decl.S, clipS(rd.Text)), cs)
		return
	}
	if len(msgs) != 0 {
		c.Violation("C15/message-returned-with-error", fmt.Sprint(errs), cs)
		return
	}
	// the error is reported at the declaration
	at := rd.Tok[declIdx]
	found := false
	for _, e := range errs {
		if p, _, ok := smltext.ParseDiag(e); ok && p == at {
			found = true
		}
	}
	if !found {
		c.Violation("C15/error-not-at-the-declaration/"+sig, fmt.Sprintf("declaration %s at Ln %d, Col %d; errors %q; text %q", decl.S, at.Line, at.Col, errs, clipS(rd.Text)), cs)
	}
	if c.WantSample() && near && len(rd.Text) < 120 {
		c.Sample(map[string]interface{}{"text": rd.Text, "count": cs.Count, "errors": errs})
	}
}

func c15ASCIIVar(c *ctx, cs c15Case) {
	pad := 0
	if cs.Style%7 == 3 {
		pad = 1 + cs.Style%2
		c.Class("zero-padded-bounds")
	}
	decl := sizeTokenStyled(cs.Form, cs.Lo, cs.Hi, cs.Style, pad)
	text := "S2F3 W H<-E\n<L[2]\n  <A" + decl + " TEXT>\n  <U1 1>\n>\n."
	if cs.Style%2 == 1 {
		text = "S2F3 W H<-E <A " + decl + " TEXT> ."
	}
	lo, hi := bounds(cs)
	inverted := hi != nil && lo.Cmp(hi) > 0
	msgs, errs, _, o := smlParse(text)
	c.Note(rng.HashStr(text+fmt.Sprint(cs.Count)), true)
	c.Class("asciivar/form=" + cs.Form)
	sig := "asciivar/form=" + cs.Form
	if o.Panicked {
		c.Violation("C15/parser-panicked", o.String(), cs)
		return
	}
	if inverted {
		c.Class("asciivar/inverted-bounds")
		if len(errs) == 0 || len(msgs) != 0 {
			c.Violation("C15/inverted-bounds-accepted/"+sig, fmt.Sprintf("text %q: %d messages, errors %q", text, len(msgs), errs), cs)
		}
		return
	}
	if len(errs) > 0 || len(msgs) != 1 {
		c.Violation("C15/ascii-variable-declaration-rejected/"+sig, fmt.Sprintf("text %q: errors %q", text, errs), cs)
		return
	}
	m := msgs[0]
	printedBefore := m.String() // before anything is filled
	maxInt := new(big.Int).SetUint64(1<<63 - 1)
	huge := lo.Cmp(maxInt) > 0 || (hi != nil && hi.Cmp(maxInt) > 0)
	// the bounds are kept in the template ...
	if !huge {
		// find the ASCII node through the printed form and a re-parse; FillInStringLength through a fresh parse of the bare item
		bare, errs2, _, _ := smlParse("S1F1 H->E <A" + decl + " TEXT> .")
		if len(errs2) == 0 && len(bare) == 1 {
			// the bare message's item is an *ast.ASCIINode reachable only through FillVariables' behaviour and String()
			wantStr := ref.Print(&ref.Item{Kind: ref.A, AVar: "TEXT", AMin: int(lo.Int64()), AMax: func() int {
				if hi == nil {
					return -1
				}
				return int(hi.Int64())
			}()})
			if got := itemPart(bare[0].String()); got != wantStr {
				c.Violation("C15/bounds-not-printed-back/"+sig, fmt.Sprintf("declared %s, printed %q, want %q", decl, got, wantStr), cs)
				return
			}
		}
	}
	// ... printed back: the printed form re-parses to an equal message
	again, errs3, warns3, _ := smlParse(m.String())
	if len(errs3) > 0 || len(warns3) > 0 || len(again) != 1 || again[0].String() != m.String() {
		c.Violation("C15/printed-declaration-not-a-fixed-point/"+sig, fmt.Sprintf("%q -> errors %q", clipS(m.String()), errs3), cs)
		return
	}
	// ... and enforced when the variable is filled
	l := cs.Count
	s := strings.Repeat("x", l)
	accept := within(l, lo, hi)
	for _, mm := range []*ast.DataMessage{m, again[0]} {
		of := real.Try(func() { mm.FillVariables(map[string]interface{}{"TEXT": s}) })
		if accept == of.Panicked {
			c.Violation("C15/fill-length-enforcement/"+sig, fmt.Sprintf("declared %s, fill length %d: %s (should be accepted=%v)", decl, l, of, accept), cs)
			return
		}
	}
	if accept {
		c.Class("asciivar/fill-accepted")
	} else {
		c.Class("asciivar/fill-refused")
	}
	// the same variable inside a repeated group: the bounds go with every copy, also when the repeat count and the
	// strings for the generated names arrive in ONE call
	if grp, errsG, _, oG := smlParse("S2F3 W H<-E <L <L <A" + decl + " TEXT> <U1 1>> ...> ."); !oG.Panicked && len(errsG) == 0 && len(grp) == 1 {
		el := ""
		for _, v := range grp[0].Variables() {
			if ref.IsEllipsisName(v) {
				el = v
			}
		}
		other := ""
		if !huge && lo.Int64() >= 0 {
			other = strings.Repeat("k", int(lo.Int64()%1000))
		}
		if !huge && el != "" && within(len(other), lo, hi) {
			for _, oneCall := range []bool{true, false} {
				of := real.Try(func() {
					if oneCall {
						grp[0].FillVariables(map[string]interface{}{el: 1, "TEXT[0]": other, "TEXT[1]": s})
					} else {
						grp[0].FillVariables(map[string]interface{}{el: 1}).FillVariables(map[string]interface{}{"TEXT[0]": other, "TEXT[1]": s})
					}
				})
				c.Class("asciivar/fill-inside-a-repeated-group")
				if accept == of.Panicked {
					c.Violation("C15/fill-length-enforcement/repeated-group/"+sig, fmt.Sprintf("declared %s inside a repeated group, count and strings in one call=%v, fill length %d: %s (should be accepted=%v)", decl, oneCall, l, of, accept), cs)
					return
				}
			}
		}
	}
	// the template keeps its bounds whatever was filled (or refused) through it or through a message derived from it
	sib := m.SetSessionIDAndSystemBytes(5, []byte{1, 2, 3, 4})
	real.Try(func() { sib.FillVariables(map[string]interface{}{"TEXT": s}) })
	real.Try(func() { sib.FillVariables(map[string]interface{}{"TEXT": strings.Repeat("y", l+1)}) })
	if l > 0 {
		real.Try(func() { m.FillVariables(map[string]interface{}{"TEXT": strings.Repeat("z", l-1)}) })
	}
	c.Class("asciivar/template-re-read-after-fills")
	if now := m.String(); now != printedBefore || itemPart(sib.String()) != itemPart(printedBefore) {
		c.Violation("C15/template-bounds-changed-by-a-fill/"+sig, fmt.Sprintf("declared %s: the template printed %q before the fills and prints %q now (a sibling message prints %q)", decl, clipS(printedBefore), clipS(now), clipS(sib.String())), cs)
	}
}

// c15Direct checks FillInStringLength() on templates built by the factory and by the parser.
// c15Several: a list of several sized items in one message, on one line or several, some declarations spread over
// lines, some violated (with equal or different actual counts): exactly one size error per violated declaration,
// each at its declaration, whatever stands before it.
func c15Several(c *ctx, i int, r *rng.R) {
	n := 2 + r.Intn(4)
	toks := []smltext.Tok{smltext.H("S1F1"), smltext.H("W"), smltext.H("H->E")}
	if r.Chance(1, 3) {
		// a message name, now and then with characters of more than one byte (columns count characters)
		toks = append(toks, smltext.H([]string{"name", "\u540d\u524d", "\u00dcn\u00efc\u00f6d\u00e9", "\u00e9", "\u2192x", "\U0001F600ok"}[r.Intn(6)]))
	}
	toks = append(toks, smltext.H("<"), smltext.H("L"))
	type decl struct {
		idx      int
		violated bool
	}
	var decls []decl
	sameCount := r.Intn(3) // several items share this actual count now and then
	for k := 0; k < n; k++ {
		typ := []string{"U1", "I2", "B", "BOOLEAN", "F4", "A"}[r.Intn(6)]
		cnt := r.Intn(4)
		if r.Bool() {
			cnt = sameCount
		}
		violated := r.Chance(1, 2)
		lo, hi := cnt, cnt
		form := []string{"n", "a..b", "a..", "..b"}[r.Intn(4)]
		switch form {
		case "a..b":
			lo, hi = cnt-r.Intn(cnt+1), cnt+r.Intn(3)
		}
		if violated {
			switch form {
			case "n":
				lo = cnt + 1 + r.Intn(2)
				hi = lo
			case "a..b":
				lo, hi = cnt+1, cnt+1+r.Intn(3)
			case "a..":
				lo = cnt + 1 + r.Intn(3)
			default:
				if cnt == 0 {
					form, lo, hi = "n", 1, 1
				} else {
					hi = cnt - 1
				}
			}
		}
		style := 0
		if r.Chance(1, 2) {
			style = 1 + 4*r.Intn(len(innerSpacers)) // blanks, tabs, line breaks inside the brackets
		}
		d := sizeTokenStyled(form, fmt.Sprint(lo), fmt.Sprint(hi), style, 0)
		toks = append(toks, smltext.H("<"), smltext.H(typ))
		decls = append(decls, decl{len(toks), violated})
		toks = append(toks, smltext.H(d))
		for v := 0; v < cnt; v++ {
			switch typ {
			case "BOOLEAN":
				toks = append(toks, smltext.H("T"))
			case "A":
				toks = append(toks, smltext.H("0x41"))
			case "F4":
				toks = append(toks, smltext.H("1.5"))
			default:
				toks = append(toks, smltext.H(fmt.Sprint(v+1)))
			}
		}
		toks = append(toks, smltext.H(">"))
	}
	toks = append(toks, smltext.H(">"), smltext.H("."))
	gaps := make([]string, len(toks))
	oneLine := r.Chance(1, 2)
	for k := range gaps {
		gaps[k] = " "
		if !oneLine && r.Chance(1, 4) {
			gaps[k] = []string{"\n", "\n  ", "\r\n", " \n\n "}[r.Intn(4)]
		}
	}
	gaps[len(gaps)-1] = ""
	rd := smltext.Render(toks, "", gaps, nil)
	msgs, errs, _, o := smlParse(rd.Text)
	nviol := 0
	for _, d := range decls {
		if d.violated {
			nviol++
		}
	}
	c.Note(rng.HashStr(rd.Text), nviol >= 1 && len(decls) >= 2)
	c.Class("several-sized-items-in-one-message")
	if nviol >= 2 {
		c.Class("several-violated-declarations")
	}
	cs := c15Case{Op: "several", Text: rd.Text}
	if o.Panicked {
		c.Violation("C15/parser-panicked", o.String(), cs)
		return
	}
	if nviol == 0 {
		if len(errs) > 0 || len(msgs) != 1 {
			c.Violation("C15/within-bounds-rejected/several", fmt.Sprintf("errors %q text %q", errs, clipS(rd.Text)), cs)
		}
		return
	}
	if len(msgs) != 0 {
		c.Violation("C15/message-returned-with-error", fmt.Sprint(errs), cs)
		return
	}
	for _, d := range decls {
		at := rd.Tok[d.idx]
		hits := 0
		for _, e := range errs {
			if p, _, ok := smltext.ParseDiag(e); ok && p == at {
				hits++
			}
		}
		if d.violated && hits != 1 {
			c.Violation("C15/size-error-missing-at-a-declaration/several", fmt.Sprintf("violated declaration %q at Ln %d, Col %d has %d errors; errors %q; text %q", toks[d.idx].S, at.Line, at.Col, hits, errs, clipS(rd.Text)), cs)
			return
		}
		if !d.violated && hits != 0 {
			c.Violation("C15/size-error-at-a-satisfied-declaration/several", fmt.Sprintf("declaration %q at Ln %d, Col %d; errors %q; text %q", toks[d.idx].S, at.Line, at.Col, errs, clipS(rd.Text)), cs)
			return
		}
	}
	if len(errs) != nviol {
		c.Violation("C15/unexpected-errors/several", fmt.Sprintf("%d violated declarations, errors %q; text %q", nviol, errs, clipS(rd.Text)), cs)
	}
}

func c15Direct(c *ctx) {
	for lo := 0; lo <= 6; lo++ {
		for hi := -1; hi <= 6; hi++ {
			var node ast.ItemNode
			o := real.Try(func() { node = ast.NewASCIINodeVariable("v", lo, hi) })
			valid := hi == -1 || lo <= hi
			c.NoteBulk(1, 1)
			if valid == o.Panicked {
				c.Violation("C15/factory-bounds", fmt.Sprintf("NewASCIINodeVariable(v,%d,%d): %s", lo, hi, o), c15Case{Op: "direct", Lo: fmt.Sprint(lo), Hi: fmt.Sprint(hi)})
				continue
			}
			if !valid {
				continue
			}
			a := node.(*ast.ASCIINode)
			if gl, gh := a.FillInStringLength(); gl != lo || gh != hi {
				c.Violation("C15/FillInStringLength", fmt.Sprintf("(%d,%d) reported as (%d,%d)", lo, hi, gl, gh), c15Case{Op: "direct"})
			}
			for l := 0; l <= 8; l++ {
				of := real.Try(func() { node.FillVariables(map[string]interface{}{"v": strings.Repeat("y", l)}) })
				acc := l >= lo && (hi == -1 || l <= hi)
				c.NoteBulk(1, 1)
				c.Class("direct-fill")
				if acc == of.Panicked {
					c.Violation("C15/direct-fill-enforcement", fmt.Sprintf("bounds (%d,%d), length %d: %s", lo, hi, l, of), c15Case{Op: "direct", Lo: fmt.Sprint(lo), Hi: fmt.Sprint(hi), Count: l})
				}
			}
		}
	}
}

func c15Eval(c *ctx, cs c15Case) {
	if cs.Op == "asciivar" {
		c15ASCIIVar(c, cs)
	} else {
		c15Literal(c, cs)
	}
}

func runC15(c *ctx) {
	c.Rule = "exhaustive (lower, upper, count) in [0..6]^3 for the four declaration forms x all 14 item types (lists of literal children, ASCII by characters in quoted and code form, arrays) in several renderings (blanks inside the brackets, random layouts of blanks and line breaks): accepted iff the count lies within the bounds, otherwise an error positioned at the declaration token and no message; plus bounds in {255,256,65535,2^31,2^63-1,2^63,2^64,10^30} with small counts, inverted bounds; ASCII variables: bounds printed back, printed form a fixed point, fills of length {lo-1,lo,hi,hi+1,0,1000} accepted iff within (template from the parser and from the re-parsed print); factory bounds and FillInStringLength for all (lo,hi) in [0..6]x[-1..6]. non-trivial = count within 1 of a bound; distinct by text Also (rounds 5-8): blanks, tabs, LF, CR and CRLF inside declarations; 2-5 sized items in one message (one line or several, multi-byte message names, equal actual counts): exactly one error at each violated declaration; the template's printed bounds before and after fills through itself and a sibling; the variable inside a repeated group with count and strings in one call."
	c.Assume = []string{"a size declaration on a list counts children; C15 lists contain no list variable or ellipsis", "for bounds above 2^63-1 only enforcement is checked, not the number reported by FillInStringLength"}
	c.Exhaust = true
	forms := []string{"n", "a..b", "a..", "..b"}
	var cases []c15Case
	for k := ref.L; k < ref.NKinds; k++ {
		for _, f := range forms {
			for lo := 0; lo <= 6; lo++ {
				for hi := 0; hi <= 6; hi++ {
					if (f == "n" || f == "a..") && hi != 0 {
						continue
					}
					if f == "..b" && lo != 0 {
						continue
					}
					for cnt := 0; cnt <= 6; cnt++ {
						cs := c15Case{Op: "literal", Kind: k.String(), Form: f, Count: cnt, Style: lo*7 + hi + cnt + int(k)}
						if f != "..b" {
							cs.Lo = fmt.Sprint(lo)
						}
						if f == "a..b" || f == "..b" {
							cs.Hi = fmt.Sprint(hi)
						}
						cases = append(cases, cs)
					}
				}
			}
		}
	}
	// huge and overflowing bounds with small counts
	hugeVals := []string{"255", "256", "65535", "2147483648", "9223372036854775807", "9223372036854775808", "18446744073709551616", "1000000000000000000000000000000"}
	for _, k := range []ref.Kind{ref.L, ref.A, ref.U1, ref.F8, ref.B} {
		for _, hv := range hugeVals {
			for _, cnt := range []int{0, 3} {
				cases = append(cases,
					c15Case{Op: "literal", Kind: k.String(), Form: "n", Lo: hv, Count: cnt},
					c15Case{Op: "literal", Kind: k.String(), Form: "a..", Lo: hv, Count: cnt},
					c15Case{Op: "literal", Kind: k.String(), Form: "..b", Hi: hv, Count: cnt},
					c15Case{Op: "literal", Kind: k.String(), Form: "a..b", Lo: "2", Hi: hv, Count: cnt},
					c15Case{Op: "literal", Kind: k.String(), Form: "a..b", Lo: hv, Hi: hv, Count: cnt},
					c15Case{Op: "literal", Kind: k.String(), Form: "a..b", Lo: hv, Hi: "5", Count: cnt})
			}
		}
	}
	// ASCII variables
	for _, f := range forms {
		for lo := 0; lo <= 6; lo++ {
			for hi := 0; hi <= 6; hi++ {
				if (f == "n" || f == "a..") && hi != 0 {
					continue
				}
				if f == "..b" && lo != 0 {
					continue
				}
				for _, l := range []int{lo - 1, lo, hi, hi + 1, 0, 1, 1000} {
					if l < 0 {
						continue
					}
					cs := c15Case{Op: "asciivar", Form: f, Count: l, Style: lo + hi + l}
					if f != "..b" {
						cs.Lo = fmt.Sprint(lo)
					}
					if f == "a..b" || f == "..b" {
						cs.Hi = fmt.Sprint(hi)
					}
					cases = append(cases, cs)
				}
			}
		}
	}
	for _, hv := range hugeVals {
		for _, l := range []int{0, 5, 300} {
			cases = append(cases,
				c15Case{Op: "asciivar", Form: "n", Lo: hv, Count: l},
				c15Case{Op: "asciivar", Form: "a..", Lo: hv, Count: l},
				c15Case{Op: "asciivar", Form: "..b", Hi: hv, Count: l},
				c15Case{Op: "asciivar", Form: "a..b", Lo: "2", Hi: hv, Count: l},
				c15Case{Op: "asciivar", Form: "a..b", Lo: hv, Hi: "7", Count: l})
		}
	}
	reps := c.pick(4, 12)
	c.parallel(len(cases)*reps, func(i int, _ *rng.R) {
		cs := cases[i%len(cases)]
		cs.Style += i / len(cases)
		c15Eval(c, cs)
	})
	// the bounds belong to the declaration, not to the variable's name: the same name with other bounds in the next message
	decls := []struct {
		text   string
		lo, hi int
	}{{"", 0, -1}, {"[2]", 2, 2}, {"[5..8]", 5, 8}, {"[..3]", 0, 3}, {"[4..]", 4, -1}, {"[0]", 0, 0}}
	for _, d1 := range decls {
		for _, d2 := range decls {
			text := "S1F1 W H->E <L <A" + d1.text + " id> <U1 1>> .\nS1F3 W H->E <A" + d2.text + " id> ."
			msgs, errs, _, o := smlParse(text)
			c.NoteBulk(1, 1)
			c.Class("same-name-other-bounds")
			cs := c15Case{Op: "two-messages", Lo: d1.text, Hi: d2.text}
			if o.Panicked || len(errs) > 0 || len(msgs) != 2 {
				c.Violation("C15/two-messages-rejected", fmt.Sprintf("%q: %q %s", text, errs, o), cs)
				continue
			}
			for i, d := range []struct {
				text   string
				lo, hi int
			}{d1, d2} {
				for l := 0; l <= 9; l++ {
					of := real.Try(func() { msgs[i].FillVariables(map[string]interface{}{"id": strings.Repeat("z", l)}) })
					acc := l >= d.lo && (d.hi == -1 || l <= d.hi)
					if acc == of.Panicked {
						c.Violation("C15/bounds-of-another-declaration-applied", fmt.Sprintf("message %d of %q declares %q; a fill of length %d: %s", i, text, d.text, l, of), cs)
					}
				}
			}
		}
	}
	// a count outside the bounds is reported at the declaration also when the item has another, unrelated error that does not end the item (a value out of range, not a token of the wrong kind);
	// a variable in an array item or list counts as one element
	type sized struct {
		text   string
		within bool
		declAt smltext.Pos
	}
	var extra []sized
	for _, d := range []struct {
		typ, decl, body string
		n               int // elements written
		lo, hi          int // hi -1: unbounded
	}{
		{"U1", "[2]", "300", 1, 2, 2}, {"U1", "[1]", "300 1", 2, 1, 1}, {"I2", "[3..]", "1.5 2", 2, 3, -1}, {"B", "[..1]", "1 256 3", 3, 0, 1},
		{"F4", "[2]", "1e99 1 2", 3, 2, 2}, {"A", "[5]", "\"ab\" 300", 3, 5, 5},
		{"U1", "[5]", "x", 1, 5, 5}, {"U1", "[1]", "x", 1, 1, 1}, {"B", "[..1]", "1 2 v", 3, 0, 1}, {"B", "[3]", "1 2 v", 3, 3, 3}, {"F4", "[0]", "1.5 fv", 2, 0, 0},
		{"I4", "[2..3]", "va vb vc vd", 4, 2, 3}, {"I4", "[2..3]", "va vb vc", 3, 2, 3}, {"BOOLEAN", "[2]", "T bv", 2, 2, 2}, {"BOOLEAN", "[3]", "T bv", 2, 3, 3},
	} {
		text := "S1F1 W H->E\n<" + d.typ + d.decl + " " + d.body + ">\n."
		extra = append(extra, sized{text, d.n >= d.lo && (d.hi == -1 || d.n <= d.hi), smltext.Pos{Line: 2, Col: 2 + len(d.typ)}})
	}
	for _, d := range []struct {
		decl, body string
		n, lo, hi  int
	}{
		{"[3]", "<A x>", 1, 3, 3}, {"[1]", "<A x>", 1, 1, 1}, {"[1]", "<A \"a\"> <A \"b\"> v", 3, 1, 1}, {"[3]", "<A \"a\"> <A \"b\"> v", 3, 3, 3},
		{"[2]", "<U1 300> <U1 1> <U1 2>", 3, 2, 2}, {"[..1]", "lv <L lv2> <B 1>", 3, 0, 1}, {"[2..]", "<L <F4[0] 1.5 fv>>", 1, 2, -1},
	} {
		text := "S1F1 W H->E\n<L" + d.decl + " " + d.body + ">\n."
		extra = append(extra, sized{text, d.n >= d.lo && (d.hi == -1 || d.n <= d.hi), smltext.Pos{Line: 2, Col: 3}})
	}
	for _, e := range extra {
		_, errs, _, o := smlParse(e.text)
		c.NoteBulk(1, 1)
		c.Class("sized-items-with-variables-or-a-second-error")
		found := false
		for _, er := range errs {
			if p, t, ok := smltext.ParseDiag(er); ok && p == e.declAt && strings.Contains(t, "size") {
				found = true
			}
		}
		cs := c15Case{Op: "text", Kind: e.text}
		if o.Panicked {
			c.Violation("C15/parser-panicked", o.String(), cs)
		} else if !e.within && !found {
			c.Violation("C15/size-error-missing-at-the-declaration", fmt.Sprintf("text %q: count outside the declared bounds, errors %q (none at Ln %d, Col %d)", e.text, errs, e.declAt.Line, e.declAt.Col), cs)
		} else if e.within && found {
			c.Violation("C15/size-error-for-a-count-within-bounds", fmt.Sprintf("text %q: errors %q", e.text, errs), cs)
		}
	}
	c15Direct(c)
	c.parallel(c.pick(30000, 300000), func(i int, r *rng.R) { c15Several(c, i, r) })
	c.Required = []string{"several-sized-items-in-one-message", "several-violated-declarations", "asciivar/template-re-read-after-fills", "asciivar/fill-inside-a-repeated-group", "literal/within", "literal/outside", "literal/form=n", "literal/form=a..b", "literal/form=a..", "literal/form=..b", "asciivar/fill-accepted", "asciivar/fill-refused", "asciivar/inverted-bounds", "direct-fill", "zero-padded-bounds", "same-name-other-bounds", "sized-items-with-variables-or-a-second-error"}
}

func replayC15(c *ctx, raw json.RawMessage) {
	var cs c15Case
	if json.Unmarshal(raw, &cs) == nil {
		c15Eval(c, cs)
	}
}
