package main

import (
	"fmt"
	"sync"
	"sync/atomic"

	"verifharness/internal/real"

	"github.com/wolimst/lib-secs2-hsms-go/pkg/ast"
)

// c17FreshBarrage (round 10/11): objects nobody has asked anything of, each handed to eight goroutines that are
// released together by a spin barrier and make ONE call each. Nothing lies between the release and the call - no
// formatting, no pooled buffers of the harness or of fmt - so no accidental synchronisation (fmt's sync.Pool orders
// goroutines in the race detector's eyes) hides an unsynchronised first write inside the library. The values are the
// ones a caller hands over in Go's wider types: float64 that single precision cannot hold exactly, integers in every
// width. Results are compared, after the join, with the same calls made alone on a twin built the same way.
func c17FreshBarrage(c *ctx, round int, seed uint64) (calls int64) {
	inexact := func(n, salt int) []interface{} {
		v := make([]interface{}, n)
		for i := range v {
			v[i] = float64(i+salt)/3 + 0.1
		}
		return v
	}
	ints := func(n, salt int) []interface{} {
		v := make([]interface{}, n)
		for i := range v {
			switch i % 5 {
			case 0:
				v[i] = int8(i%100 - 50)
			case 1:
				v[i] = int64(i+salt) * 1000003
			case 2:
				v[i] = uint16(i)
			case 3:
				v[i] = i - salt
			default:
				v[i] = uint32(i) * 65537
			}
		}
		return v
	}
	salt := round*7 + 1
	makers := []func() interface{}{
		func() interface{} { return ast.NewFloatNode(4, inexact(63, salt)...) },
		func() interface{} { return ast.NewFloatNode(4, inexact(5000, salt)...) },
		func() interface{} { return ast.NewFloatNode(8, inexact(700, salt)...) },
		func() interface{} {
			return ast.NewListNode(ast.NewFloatNode(4, inexact(40, salt)...), ast.NewUintNode(1, 7), ast.NewListNode(ast.NewFloatNode(4, 0.1, 1.0/3, 2.7)))
		},
		func() interface{} {
			return ast.NewListNode(ast.NewFloatNode(4, "x", 0.1, "y"), ast.NewASCIINode("tail")).FillVariables(map[string]interface{}{"x": 0.7, "y": 1e-3})
		},
		func() interface{} {
			return ast.NewHSMSDataMessage("fresh", 6, 11, 1, "H<-E", ast.NewListNode(ast.NewFloatNode(4, inexact(200, salt)...), ast.NewIntNode(8, ints(300, salt)...)), 9, []byte{0, 0, byte(round), 1})
		},
		func() interface{} {
			return ast.NewDataMessage("tpl", 1, 3, 2, "H->E", ast.NewListNode(ast.NewFloatNode(4, 0.3, "f"), ast.NewFloatNode(8, 0.3), "lv"))
		},
		func() interface{} { return ast.NewIntNode(8, ints(2000, salt)...) },
		func() interface{} { return ast.NewBinaryNode(1, 2, "0b101", 255, 7) },
		func() interface{} {
			kids := make([]interface{}, 300)
			for i := range kids {
				kids[i] = ast.NewListNode(ast.NewFloatNode(4, float64(i)+0.1), ast.NewBooleanNode(i%2 == 0), ast.NewASCIINode(fmt.Sprint("k", i)))
			}
			return ast.NewListNode(kids...)
		},
	}
	callOn := func(obj interface{}, g int) (res string) {
		defer func() {
			if r := recover(); r != nil {
				res = fmt.Sprint("panic: ", r)
			}
		}()
		switch o := obj.(type) {
		case *ast.DataMessage:
			switch g % 4 {
			case 0:
				return string(o.ToBytes())
			case 1:
				return o.String()
			case 2:
				return string(o.SetSessionIDAndSystemBytes(77, []byte{1, 2, 3, 4}).SetWaitBit(true).FillVariables(map[string]interface{}{"f": 0.9, "lv": ast.NewFloatNode(4, 0.2)}).ToBytes())
			default:
				return fmt.Sprint(o.Variables())
			}
		case ast.ItemNode:
			switch g % 4 {
			case 0, 3:
				return string(o.ToBytes())
			case 1:
				return real.Str(o)
			default:
				return string(o.FillVariables(map[string]interface{}{}).ToBytes())
			}
		}
		return "?"
	}
	const G = 8
	for k, mk := range makers {
		var shared interface{}
		if o := real.Try(func() { shared = mk() }); o.Panicked {
			c.Violation("C17/fresh-object-refused", fmt.Sprintf("maker %d: %s", k, o), c17Case{Seed: seed, Round: round, Note: "fresh barrage"})
			continue
		}
		var arrived int32
		got := make([]string, G)
		var wg sync.WaitGroup
		for g := 0; g < G; g++ {
			wg.Add(1)
			go func(g int) {
				defer wg.Done()
				atomic.AddInt32(&arrived, 1)
				for atomic.LoadInt32(&arrived) < G {
				}
				got[g] = callOn(shared, g)
			}(g)
		}
		wg.Wait()
		calls += G
		twin := mk()
		for g := 0; g < G; g++ {
			if want := callOn(twin, g); want != got[g] {
				c.Violation("C17/result-differs-from-sequential/fresh-object", fmt.Sprintf("fresh object %d, call %d made by eight goroutines at once returned %q; the same call alone on an equal object returns %q", k, g%4, clipS(got[g]), clipS(want)), c17Case{Seed: seed, Round: round, Note: "fresh barrage"})
				break
			}
		}
	}
	c.ClassN("fresh-objects-first-called-by-eight-goroutines-at-once", int64(len(makers)))
	return calls
}
