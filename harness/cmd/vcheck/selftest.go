package main

import (
	"bytes"
	"fmt"
	"math"

	"verifharness/internal/gen"
	"verifharness/internal/ref"
	"verifharness/internal/rng"
)

// refSelfTest checks the reference model against literal vectors taken from
// the repository's own tests (bytes and printed forms written by hand there)
// and against itself. A failure is a harness bug, never a verdict.
func refSelfTest() error {
	type vec struct {
		it    *ref.Item
		bytes []byte
		str   string
	}
	txt := &ref.Item{Kind: ref.A, Str: []byte("text")}
	i1 := &ref.Item{Kind: ref.I1, Slots: []ref.Slot{{Int: 11}, {Int: 22}}}
	vecs := []vec{
		{&ref.Item{Kind: ref.L}, []byte{0x01, 0}, "<L[0]>"},
		{&ref.Item{Kind: ref.L, Children: []*ref.Item{txt}}, []byte{0x01, 1, 0x41, 4, 0x74, 0x65, 0x78, 0x74}, "<L[1]\n  <A \"text\">\n>"},
		{&ref.Item{Kind: ref.L, Children: []*ref.Item{txt, i1}}, []byte{0x01, 2, 0x41, 4, 0x74, 0x65, 0x78, 0x74, 0x65, 2, 11, 22}, "<L[2]\n  <A \"text\">\n  <I1[2] 11 22>\n>"},
		{&ref.Item{Kind: ref.F4}, []byte{0x91, 0}, "<F4[0]>"},
		{&ref.Item{Kind: ref.F4, Slots: []ref.Slot{{Uint: 1}}}, []byte{0x91, 4, 0, 0, 0, 1}, fmt.Sprintf("<F4[1] %g>", float32(math.SmallestNonzeroFloat32))},
		{&ref.Item{Kind: ref.F4, Slots: []ref.Slot{{Uint: 0x7F7FFFFF}}}, []byte{0x91, 4, 0x7F, 0x7F, 0xFF, 0xFF}, fmt.Sprintf("<F4[1] %g>", float32(math.MaxFloat32))},
		{&ref.Item{Kind: ref.U2, Slots: []ref.Slot{{Uint: 65535}, {Uint: 1}}}, []byte{0xA9, 4, 0xFF, 0xFF, 0, 1}, "<U2[2] 65535 1>"},
		{&ref.Item{Kind: ref.I8, Slots: []ref.Slot{{Int: -1}}}, []byte{0x61, 8, 255, 255, 255, 255, 255, 255, 255, 255}, "<I8[1] -1>"},
		{&ref.Item{Kind: ref.B, Slots: []ref.Slot{{Uint: 0}, {Uint: 255}}}, []byte{0x21, 2, 0, 255}, "<B[2] 0b0 0b11111111>"},
		{&ref.Item{Kind: ref.BOOLEAN, Slots: []ref.Slot{{Uint: 1}, {Uint: 0}}}, []byte{0x25, 2, 1, 0}, "<BOOLEAN[2] T F>"},
		{&ref.Item{Kind: ref.A, Str: []byte("a\nb")}, []byte{0x41, 3, 'a', 10, 'b'}, "<A \"a\" 0x0A \"b\">"},
	}
	for i, v := range vecs {
		if got := ref.Encode(v.it); !bytes.Equal(got, v.bytes) {
			return fmt.Errorf("vector %d: Encode = %x want %x", i, got, v.bytes)
		}
		if got := ref.Print(v.it); got != v.str {
			return fmt.Errorf("vector %d: Print = %q want %q", i, got, v.str)
		}
		if d := ref.MatchPrinted(v.str, ref.PrintSegs(v.it)); d != "" {
			return fmt.Errorf("vector %d: MatchPrinted: %s", i, d)
		}
	}
	// header of the repository's parser test: linktest.req
	lt := []byte{0, 0, 0, 10, 0xFF, 0xFF, 0, 0, 0, 5, 0xFF, 0xFF, 0xFF, 0xFF}
	if d, ok := ref.Decode(lt); !ok || !d.Control || ref.ControlType(d.Header[4], d.Header[5]) != "linktest.req" {
		return fmt.Errorf("Decode(linktest.req) failed")
	}
	// Decode(Encode(x)) == x on generated trees, with all length forms
	r := rng.New(12345)
	g := gen.New(r, gen.Profile{MaxDepth: 4, Boundary: true, Budget: 70000})
	for i := 0; i < 300; i++ {
		it := g.Tree()
		m := g.Msg(it, true)
		b := ref.EncodeMessage(m)
		d, ok := ref.Decode(b)
		if !ok || d.Control {
			return fmt.Errorf("Decode(Encode) rejected: %s", d.Why)
		}
		if !bytes.Equal(ref.EncodeMessage(d.Msg), b) {
			return fmt.Errorf("Decode(Encode) differs")
		}
		if d.Msg.Stream != m.Stream || d.Msg.Function != m.Function || d.Msg.W != m.W || d.Msg.Session != m.Session || d.Msg.Sys != m.Sys {
			return fmt.Errorf("Decode(Encode) header differs")
		}
		if ref.Print(d.Msg.Item) != ref.Print(it) {
			return fmt.Errorf("Decode(Encode) tree differs")
		}
	}
	// float rounding against hand-computed cases
	f32 := []struct {
		in   float64
		out  uint32
		over bool
	}{
		{1.0, 0x3F800000, false}, {0.1, 0x3DCCCCCD, false}, {math.MaxFloat32, 0x7F7FFFFF, false},
		{math.SmallestNonzeroFloat32, 1, false}, {math.SmallestNonzeroFloat32 / 2, 0, false}, // tie -> even (0)
		{math.SmallestNonzeroFloat32 * 0.75, 1, false}, {-2.5, 0xC0200000, false},
		{3.4028235677973366e38, 0, true},           // the rounding midpoint 2^128-2^103 rounds to even = infinity
		{3.4028235677973362e38, 0x7F7FFFFF, false}, // just below the midpoint
		{1e39, 0, true}, {16777217, 0x4B800000, false}, {16777219, 0x4B800002, false},
	}
	for _, c := range f32 {
		got, ok := ref.F32FromF64Bits(math.Float64bits(c.in))
		if c.over != !ok || (ok && got != c.out) {
			return fmt.Errorf("F32FromF64Bits(%g) = %#x,%v want %#x,%v", c.in, got, ok, c.out, !c.over)
		}
	}
	// the documented ellipsis examples: <L <U1 var> varNode ... <A "text">> with 1
	tpl := &ref.Item{Kind: ref.L, Children: []*ref.Item{
		{Kind: ref.U1, Slots: []ref.Slot{{Var: "var"}}}, {Var: "varNode"}, {Var: "..."}, {Kind: ref.A, Str: []byte("text")}}}
	ex := ref.Expand(tpl, map[string]int{"...": 1})
	want := "<L\n  <U1[1] var[0]>\n  varNode[0]\n  <U1[1] var[1]>\n  varNode[1]\n  <A \"text\">\n>"
	if got := ref.Print(ex); got != want {
		return fmt.Errorf("Expand doc example: %q", got)
	}
	return nil
}
