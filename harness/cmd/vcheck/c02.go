package main

import (
	"bytes"
	"encoding/hex"
	"encoding/json"
	"fmt"
	"math"
	"math/big"
	"strings"
	"sync/atomic"

	"verifharness/internal/gen"
	"verifharness/internal/real"
	"verifharness/internal/ref"
	"verifharness/internal/rng"

	"github.com/wolimst/lib-secs2-hsms-go/pkg/ast"
)

// C02 — encoded bytes conform to SEMI E5 / E37 (reference encoder oracle).

type c02Case struct {
	Op   string    `json:"op"` // item | msg | f4bits | f4round
	Item *ref.Item `json:"item,omitempty"`
	Msg  *ref.Msg  `json:"msg,omitempty"`
	Bits uint64    `json:"bits,omitempty"`
	Wire string    `json:"wire,omitempty"` // op=decoded: hex of the (non-canonical) bytes handed to the decoder
}

func init() { register("C02", "exploration", runC02, replayC02) }

// c02Keep remembers, per goroutine-free call site (the serial parts of the run), the bytes returned for the previous
// item and what they must still be: an encoder that hands out a reused buffer changes them on the next call.
type c02Kept struct {
	got, want []byte
	it        *ref.Item
}

func (k *c02Kept) check(c *ctx) {
	if k.got != nil && !bytes.Equal(k.got, k.want) {
		c.Violation("C02/item/earlier-result-changed-by-later-encoding", fmt.Sprintf("bytes returned earlier for %s were %x and now read %x", clipS(ref.Print(k.it)), clipB(k.want), clipB(k.got)), c02Case{Op: "item", Item: k.it})
	}
}

func c02Item(c *ctx, it *ref.Item, class string) {
	var got []byte
	var node ast.ItemNode
	o := real.Try(func() { node = real.Build(it); got = node.ToBytes() })
	want := ref.Encode(it)
	if class == "tree" && len(want) < 4096 {
		// encode a second, different tree on the same goroutine and look at the first result again
		var kept c02Kept
		kept.got, kept.want, kept.it = got, want, it
		other := &ref.Item{Kind: ref.L, Children: []*ref.Item{{Kind: ref.U1, Slots: make([]ref.Slot, 255)}, {Kind: it.Kind}, it}}
		real.Try(func() { _ = real.Build(other).ToBytes() })
		real.Try(func() { _ = real.Build(&ref.Item{Kind: ref.L}).ToBytes() })
		kept.check(c)
	}
	h := rng.Hash64(want)
	c.Note(h, len(want) > 2)
	c.Class("item/" + class)
	if len(want) > 2 {
		c.Class(fmt.Sprintf("lenbytes=%d/%s", want[0]&3, it.Kind))
	}
	if (class == "tree" || class == "boundary-length") && len(want) > 4 && len(want) < 200 && c.WantSample() {
		c.Sample(map[string]interface{}{"item": ref.Print(it), "ToBytes": fmt.Sprintf("%x", got), "reference": fmt.Sprintf("%x", want)})
	}
	if o.Panicked {
		c.Violation("C02/item/constructor-refused-valid/"+it.Kind.String(), "valid item refused: "+o.String()+" item="+clipS(ref.Print(it)), c02Case{Op: "item", Item: it})
		return
	}
	if !bytes.Equal(got, want) {
		c.Violation("C02/item/bytes-differ/"+it.Kind.String()+fmt.Sprintf("/lenbytes=%d", want[0]&3),
			fmt.Sprintf("ToBytes()=%x reference=%x item=%s", clipB(got), clipB(want), clipS(ref.Print(it))), c02Case{Op: "item", Item: it})
	}
}

// nonCanonical encodes a variable-free tree the way another implementation legally may: length fields longer than
// needed, and "true" booleans as any non-zero byte.
func nonCanonical(r *rng.R, it *ref.Item) []byte {
	pick := func(n int) int {
		min := 1
		if n > 0xFFFF {
			min = 3
		} else if n > 0xFF {
			min = 2
		}
		return min + r.Intn(4-min)
	}
	switch it.Kind {
	case ref.L:
		out := ref.HeaderN(ref.L, len(it.Children), pick(len(it.Children)))
		for _, ch := range it.Children {
			out = append(out, nonCanonical(r, ch)...)
		}
		return out
	case ref.BOOLEAN:
		out := ref.HeaderN(ref.BOOLEAN, len(it.Slots), pick(len(it.Slots)))
		for _, sl := range it.Slots {
			b := byte(0)
			if sl.Uint != 0 {
				b = byte(1 + r.Intn(255))
			}
			out = append(out, b)
		}
		return out
	}
	canon := ref.Encode(it)
	hl := 1 + int(canon[0]&3)
	n := len(canon) - hl
	return append(ref.HeaderN(it.Kind, n, pick(n)), canon[hl:]...)
}

// c02Decoded: an item that came out of the decoder is an item like any other: its bytes are the canonical encoding
// of what it holds, whatever spelling it was decoded from.
func c02Decoded(c *ctx, cs c02Case) {
	wire, _ := hex.DecodeString(cs.Wire)
	want := ref.EncodeMessage(cs.Msg)
	c.Note(rng.Hash64(wire), !bytes.Equal(wire, want))
	c.Class("item/decoded-from-another-spelling")
	var got, gotItem []byte
	var ok bool
	o := real.Try(func() {
		var m ast.HSMSMessage
		m, ok, _ = hsmsParse(wire) // decodes from its own buffer and overwrites it before the message is encoded (round 11)
		if ok {
			got = m.ToBytes()
			if dm, is := m.(*ast.DataMessage); is {
				gotItem = dm.ToBytes()[14:]
			}
		}
	})
	if o.Panicked || !ok {
		c.Class("decoded/not-accepted(C03's-subject)")
		return
	}
	if !bytes.Equal(got, want) || !bytes.Equal(gotItem, want[14:]) {
		c.Violation("C02/decoded/bytes-differ", fmt.Sprintf("decoded from %x, ToBytes()=%x, the encoding of %s is %x", clipB(wire), clipB(got), clipS(ref.Print(cs.Msg.Item)), clipB(want)), cs)
	}
}

func clipS(s string) string {
	if len(s) > 160 {
		return s[:160] + "…"
	}
	return s
}
func clipB(b []byte) []byte {
	if len(b) > 48 {
		return b[:48]
	}
	return b
}

func c02Msg(c *ctx, m *ref.Msg) {
	var got []byte
	o := real.Try(func() { got = real.BuildMsg(m).ToBytes() })
	var want []byte
	if m.Complete() {
		want = ref.EncodeMessage(m)
	}
	why := ""
	switch {
	case m.W == 2:
		why += "+optW"
	}
	if m.Session == -1 {
		why += "+nosession"
	}
	if m.Item != nil && len(m.Item.Vars()) > 0 {
		why += "+vars"
	}
	if why == "" {
		why = "complete"
	}
	c.Class("msg/" + why)
	c.Note(rng.Mix(rng.Hash64(want), rng.HashStr(ref.PrintMsg(m))), true)
	if o.Panicked {
		c.Violation("C02/msg/constructor-refused-valid", "valid message refused: "+o.String()+" "+clipS(ref.PrintMsg(m)), c02Case{Op: "msg", Msg: m})
		return
	}
	// the bytes are the message's own: writing to the system-bytes slice that was handed in does not change them
	if m.Complete() && !o.Panicked {
		sys := append([]byte(nil), m.Sys[:]...)
		var item ast.ItemNode = ast.NewEmptyItemNode()
		var got3 []byte
		o3 := real.Try(func() {
			if m.Item != nil {
				item = real.Build(m.Item)
			}
			msg := ast.NewHSMSDataMessage(m.Name, m.Stream, m.Function, m.W, m.Dir, item, m.Session, sys)
			for i := range sys {
				sys[i] ^= 0xFF
			}
			got3 = msg.ToBytes()
		})
		c.Class("msg/system-bytes-argument-overwritten")
		if !o3.Panicked && !bytes.Equal(got3, want) {
			c.Violation("C02/msg/bytes-follow-the-callers-system-bytes-slice", fmt.Sprintf("ToBytes()=%x want %x", clipB(got3), clipB(want)), c02Case{Op: "msg", Msg: m})
		}
	}
	// a message whose session id is taken away again is not complete any more
	if m.Complete() && !o.Panicked {
		var got2 []byte
		o2 := real.Try(func() { got2 = real.BuildMsg(m).SetSessionIDAndSystemBytes(-1, m.Sys[:]).ToBytes() })
		c.Class("msg/session-unset-again")
		if !o2.Panicked && len(got2) != 0 {
			c.Violation("C02/msg/partial-bytes-after-unsetting-session", fmt.Sprintf("SetSessionIDAndSystemBytes(-1, …) then ToBytes() = %x", clipB(got2)), c02Case{Op: "msg", Msg: m})
		}
	}
	if !bytes.Equal(got, want) {
		sig := "C02/msg/bytes-differ/" + why
		c.Violation(sig, fmt.Sprintf("ToBytes()=%x reference=%x msg=%s", clipB(got), clipB(want), clipS(ref.PrintMsg(m))), c02Case{Op: "msg", Msg: m})
	}
}

// c02F4Block pushes the 65536 bit patterns hi<<16|0..65535 through the factory.
// Finite patterns must encode to themselves (as float32 and as the equal
// float64); NaN/Inf patterns must be refused.
func c02F4Block(c *ctx, hi uint32, step uint32, bad *int64) {
	var fin []interface{}
	var fin64 []interface{}
	var want []byte
	for lo := uint32(0); lo < 65536; lo += step {
		b := hi<<16 | lo
		f := math.Float32frombits(b)
		if b>>23&0xFF == 0xFF {
			// non-finite: must be refused, one by one
			o := real.Try(func() { ast.NewFloatNode(4, f) })
			o2 := real.Try(func() { ast.NewFloatNode(4, float64(f)) })
			c.NoteBulk(1, 1)
			if !o.Panicked || !o2.Panicked {
				atomic.AddInt64(bad, 1)
				c.Violation("C02/f4/non-finite-accepted", fmt.Sprintf("NewFloatNode(4, bits %#08x) returned", b), c02Case{Op: "f4bits", Bits: uint64(b)})
			}
			continue
		}
		fin = append(fin, f)
		fin64 = append(fin64, float64(f))
		want = append(want, byte(b>>24), byte(b>>16), byte(b>>8), byte(b))
	}
	if len(fin) == 0 {
		c.ClassN("f4/non-finite-patterns", int64(65536/step))
		return
	}
	c.ClassN("f4/finite-patterns", int64(len(fin)))
	for pass, args := range [][]interface{}{fin, fin64} {
		var got []byte
		o := real.Try(func() { got = ast.NewFloatNode(4, args...).ToBytes() })
		hdr := ref.Header(ref.F4, 4*len(args))
		ok := !o.Panicked && len(got) == len(hdr)+len(want) && bytes.Equal(got[:len(hdr)], hdr) && bytes.Equal(got[len(hdr):], want)
		if !ok {
			// locate the first offending pattern
			for i := range args {
				b := uint32(want[4*i])<<24 | uint32(want[4*i+1])<<16 | uint32(want[4*i+2])<<8 | uint32(want[4*i+3])
				var g1 []byte
				o1 := real.Try(func() { g1 = ast.NewFloatNode(4, args[i]).ToBytes() })
				if o1.Panicked || len(g1) != 6 || !bytes.Equal(g1[2:], want[4*i:4*i+4]) {
					atomic.AddInt64(bad, 1)
					c.Violation(fmt.Sprintf("C02/f4/pattern-not-preserved/pass%d", pass),
						fmt.Sprintf("F4 bits %#08x given as %T: %s bytes=%x", b, args[i], o1, g1), c02Case{Op: "f4bits", Bits: uint64(b)})
					break
				}
			}
			if !o.Panicked && ok == false && atomic.LoadInt64(bad) == 0 {
				c.Violation("C02/f4/block-header", fmt.Sprintf("block hi=%#x header/length wrong: got %x", hi, clipB(got)), c02Case{Op: "f4bits", Bits: uint64(hi) << 16})
			}
		}
	}
	c.NoteBulk(int64(2*len(fin)), int64(len(fin)))
}

// c02F4Round: a float64 that is not a float32 must be stored as the nearest
// float32 (ties to even) or refused when it rounds beyond the finite range.
func c02F4Round(c *ctx, bits uint64) {
	v := math.Float64frombits(bits)
	want, fits := ref.F32FromF64Bits(bits)
	var got []byte
	o := real.Try(func() { got = ast.NewFloatNode(4, v).ToBytes() })
	c.Note(rng.Mix(bits, 77), true)
	av := math.Abs(v)
	switch {
	case av > math.MaxFloat32 && fits:
		// band between MaxFloat32 and the rounding midpoint: refuse or store MaxFloat32
		c.Class("f4round/band-above-max")
		if !o.Panicked && !(len(got) == 6 && bytes.Equal(got[2:], []byte{byte(want >> 24), byte(want >> 16), byte(want >> 8), byte(want)})) {
			c.Violation("C02/f4round/band", fmt.Sprintf("float64 %g in F4: bytes %x", v, got), c02Case{Op: "f4round", Bits: bits})
		}
	case !fits:
		c.Class("f4round/overflow")
		if !o.Panicked {
			c.Violation("C02/f4round/overflow-accepted", fmt.Sprintf("float64 %g accepted in F4: bytes %x", v, got), c02Case{Op: "f4round", Bits: bits})
		}
	default:
		c.Class("f4round/in-range")
		w := []byte{0x91, 4, byte(want >> 24), byte(want >> 16), byte(want >> 8), byte(want)}
		if o.Panicked || !bytes.Equal(got, w) {
			c.Violation("C02/f4round/wrong-rounding", fmt.Sprintf("float64 %g (bits %#x) in F4: %s bytes %x want %x", v, bits, o, got, w), c02Case{Op: "f4round", Bits: bits})
		}
	}
}

func runC02(c *ctx) {
	c.Rule = "reference-encoder oracle: exhaustive 1- and 2-byte formats (every value, single and packed), F4 bit patterns (quick: every 4099th + exponent edges; thorough: all 2^32), boundary+random I4/I8/U4/U8/F8, float64->F4 rounding, generated trees (all 14 formats, 1/2/3 length bytes), messages in every completeness state, trees that reach the encoder through the decoder from non-minimal length fields and non-0/1 booleans; non-trivial = encoded length > 2 bytes, distinct by hash of reference bytes (sweeps: distinct by construction) Also (rounds 5-8): trees that reach the encoder through the decoder (non-minimal lengths, non-0/1 booleans), through the SML parser (60-digit literals at rounding midpoints; header keywords glued to comments) and through several fills of one template; floats built from integer Go values up to the int64/uint64 extremes; +0/-0 neighbours in lists. Also (round 9): partial fills of one node with 2-8 variables (every kind, four map orders): nothing is encoded until the rest is filled; texts of 16,777,215 / 16,777,216 characters that arrive by a fill. Also (round 10): an incomplete list of 1..4097 elements is asked for its bytes (none), alone and nested, and a complete list of that width is encoded right after it."
	c.Assume = []string{"reference encoder internal/ref (self-tested against the repository's literal test vectors)"}

	// (a) exhaustive small formats
	for _, k := range []ref.Kind{ref.I1, ref.U1, ref.B, ref.BOOLEAN, ref.A} {
		n := 256
		if k == ref.BOOLEAN {
			n = 2
		}
		if k == ref.A {
			n = 128
		}
		packed := &ref.Item{Kind: k}
		for v := 0; v < n; v++ {
			var it *ref.Item
			switch {
			case k == ref.A:
				it = &ref.Item{Kind: k, Str: []byte{byte(v)}}
				packed.Str = append(packed.Str, byte(v))
			case k == ref.I1:
				it = &ref.Item{Kind: k, Slots: []ref.Slot{{Int: int64(int8(v))}}}
				packed.Slots = append(packed.Slots, it.Slots[0])
			default:
				it = &ref.Item{Kind: k, Slots: []ref.Slot{{Uint: uint64(v)}}}
				packed.Slots = append(packed.Slots, it.Slots[0])
			}
			c02Item(c, it, "exhaustive-1byte")
		}
		c02Item(c, packed, "exhaustive-1byte-packed")
	}
	for _, k := range []ref.Kind{ref.I2, ref.U2} {
		packed := &ref.Item{Kind: k}
		for v := 0; v < 65536; v++ {
			s := ref.Slot{Uint: uint64(v)}
			if k == ref.I2 {
				s = ref.Slot{Int: int64(int16(v))}
			}
			packed.Slots = append(packed.Slots, s)
			if v%7 == 0 || v < 300 || v > 65200 || (v > 32500 && v < 33000) {
				c02Item(c, &ref.Item{Kind: k, Slots: []ref.Slot{s}}, "2byte-single")
			}
		}
		// all 65536 values in packed arrays of 4096 (and one array of all of them: 131072 bytes, 3 length bytes)
		for off := 0; off < 65536; off += 4096 {
			c02Item(c, &ref.Item{Kind: k, Slots: packed.Slots[off : off+4096]}, "exhaustive-2byte-packed")
		}
		c02Item(c, packed, "exhaustive-2byte-packed")
	}

	// (b) F4 bit patterns
	var bad int64
	if c.thorough {
		c.parallel(65536, func(i int, _ *rng.R) { c02F4Block(c, uint32(i), 1, &bad) })
		c.Extra["f4_sweep"] = "all 2^32 bit patterns"
	} else {
		// every 4099th pattern overall = blocks with a stride; plus complete blocks at exponent edges
		c.parallel(65536, func(i int, _ *rng.R) {
			hi := uint32(i)
			edge := hi&0x7F80 == 0 || hi&0x7F80 == 0x7F80 || hi&0x7F == 0 || hi&0x7F == 0x7F
			if edge && (hi&0x7F <= 0 || hi&0x7F == 0x7F) && (hi>>7&0xFF <= 1 || hi>>7&0xFF >= 0xFE) {
				c02F4Block(c, hi, 1, &bad)
			} else if i%16 == 0 {
				c02F4Block(c, hi, 257, &bad)
			}
		})
		c.Extra["f4_sweep"] = "complete 65536-blocks at the exponent edges (0,1,254,255) + every 257th pattern of every 16th block"
	}

	// float64 -> F4 rounding
	nround := c.pick(600000, 3000000)
	c.parallel(nround, func(i int, r *rng.R) {
		var bits uint64
		switch r.Intn(6) {
		case 0: // near float32 values: a float32 plus a few low bits of noise
			b := gen.F4Bits(r)
			bits = math.Float64bits(float64(math.Float32frombits(b)))
			bits += uint64(r.Intn(1<<30)) - 1<<29
		case 1: // exact midpoints between adjacent float32
			b := gen.F4Bits(r)
			bits = math.Float64bits(float64(math.Float32frombits(b))) + 1<<28
			if r.Bool() {
				bits += uint64(r.Intn(3)) - 1
			}
		case 2: // around MaxFloat32 and the overflow midpoint
			bits = math.Float64bits(math.MaxFloat32) + uint64(r.Intn(1<<30))
			if r.Bool() {
				bits = 0x47EFFFFFF0000000 + uint64(r.Intn(5)) - 2
			}
			if r.Bool() {
				bits |= 1 << 63
			}
		case 3: // float32 subnormal range
			bits = math.Float64bits(math.SmallestNonzeroFloat32 * (float64(r.Intn(1<<24)) + float64(r.Intn(1000))/1000))
		case 4: // below the smallest subnormal
			bits = math.Float64bits(math.SmallestNonzeroFloat32 * float64(r.Intn(2000)) / 1000)
		default:
			bits = gen.F8Bits(r)
		}
		if bits>>52&0x7FF == 0x7FF {
			return
		}
		c02F4Round(c, bits)
	})

	// (c)+(d) generated trees
	ntree := c.pick(120000, 600000)
	c.parallel(ntree, func(i int, r *rng.R) {
		p := gen.Profile{MaxDepth: 1 + r.Intn(5), Boundary: true, Budget: 600}
		if i%50 == 0 {
			p.Budget = 300000
		}
		g := gen.New(r, p)
		c02Item(c, g.Tree(), "tree")
	})
	// every format at every boundary length (1, 2 and 3 length bytes)
	r := c.rnd.Derive(5)
	for k := ref.B; k < ref.NKinds; k++ {
		for _, n := range gen.BoundaryLens {
			g := gen.New(r, gen.Profile{})
			it := &ref.Item{Kind: k}
			cnt := n / k.Width()
			if k == ref.A {
				it.Str = g.ASCII(n)
			} else {
				it.Slots = make([]ref.Slot, cnt)
				for i := range it.Slots {
					it.Slots[i] = g.Value(k)
				}
			}
			c02Item(c, it, "boundary-length")
		}
	}
	for _, n := range gen.BoundaryLens {
		it := &ref.Item{Kind: ref.L}
		leaf := &ref.Item{Kind: ref.U1, Slots: []ref.Slot{{Uint: 7}}}
		for i := 0; i < n; i++ {
			it.Children = append(it.Children, leaf)
		}
		c02Item(c, it, "boundary-length")
	}

	// (e) messages, complete and incomplete
	nmsg := c.pick(40000, 200000)
	c.parallel(nmsg, func(i int, r *rng.R) {
		g := gen.New(r, gen.Profile{MaxDepth: 3, Vars: i%2 == 0, Ellipsis: i%4 == 0, Budget: 200})
		var it *ref.Item
		if r.Chance(1, 10) {
			it = nil
		} else {
			it = g.Tree()
		}
		c02Msg(c, g.Msg(it, i%3 == 0))
	})
	// (e2) trees that reach the encoder through the decoder, from non-minimal length fields and non-0/1 booleans
	c.parallel(c.pick(30000, 300000), func(i int, r *rng.R) {
		p := gen.Profile{MaxDepth: 1 + r.Intn(4), Boundary: i%9 == 0, Budget: 300}
		g := gen.New(r, p)
		var it *ref.Item
		if i%3 == 0 {
			it = &ref.Item{Kind: ref.L, Children: []*ref.Item{g.Scalar(ref.BOOLEAN), g.Tree(), g.Scalar(ref.BOOLEAN)}}
		} else {
			it = g.Tree()
		}
		m := g.Msg(it, true)
		wire := ref.PatchLen(append(append([]byte{}, ref.EncodeMessage(m)[:14]...), nonCanonical(r, it)...))
		c02Decoded(c, c02Case{Op: "decoded", Msg: m, Wire: hex.EncodeToString(wire)})
	})
	// (e3) items derived from one template by different fills: each encodes its own values, also after the template has been
	// filled again with other values (the template's storage is not the derived item's)
	c.parallel(c.pick(8000, 80000), func(i int, r *rng.R) {
		g := gen.New(r, gen.Profile{MaxDepth: r.Intn(3), Vars: true, PlainNames: true, Budget: 120, MaxKids: 3, MaxElems: 6})
		tpl := g.Tree()
		if len(tpl.Vars()) == 0 {
			return
		}
		var node ast.ItemNode
		if o := real.Try(func() { node = real.Build(tpl) }); o.Panicked {
			return
		}
		type derived struct {
			item ast.ItemNode
			want []byte
			got  []byte
		}
		var ds []derived
		for k := 0; k < 3; k++ {
			sub := fullAssignment(g, tpl)
			model, ok := ref.Fill(tpl, sub)
			if !ok || len(model.Vars()) != 0 {
				return
			}
			raw := map[string]interface{}{}
			for name, v := range sub {
				raw[name] = rawOf(v)
			}
			var it ast.ItemNode
			if o := real.Try(func() { it = node.FillVariables(raw) }); o.Panicked {
				return
			}
			d := derived{item: it, want: ref.Encode(model)}
			if k == 1 {
				d.got = it.ToBytes() // one of the three is encoded at once, the others only after all fills
			}
			ds = append(ds, d)
		}
		c.Class("item/derived-by-several-fills")
		c.Note(rng.Hash64(ds[0].want), true)
		for k, d := range ds {
			now := d.item.ToBytes()
			if !bytes.Equal(now, d.want) || (d.got != nil && !bytes.Equal(d.got, d.want)) {
				c.Violation("C02/derived/bytes-differ", fmt.Sprintf("fill %d of 3 from one template %s: ToBytes()=%x (at once: %x), the encoding of its own values is %x", k, clipS(ref.Print(tpl)), clipB(now), clipB(d.got), clipB(d.want)), c02Case{Op: "item", Item: tpl})
				return
			}
		}
	})
	// (e3b) a PARTIAL fill leaves the other variables variables: the result (and a complete-looking message around it) still
	// encodes to nothing, names what remains, and encodes its own values once the rest is filled. One node with several
	// variables, every strict subset size, repeated because the order in which a map is walked varies from call to call
	c.parallel(c.pick(6000, 60000), func(i int, r *rng.R) {
		kinds := []ref.Kind{ref.I1, ref.I2, ref.I4, ref.I8, ref.U1, ref.U2, ref.U4, ref.U8, ref.F4, ref.F8, ref.B, ref.BOOLEAN}
		k := kinds[i%len(kinds)]
		g := gen.New(r, gen.Profile{})
		n := 2 + r.Intn(7)
		leaf := &ref.Item{Kind: k, Slots: make([]ref.Slot, n)}
		var names []string
		for j := range leaf.Slots {
			leaf.Slots[j] = g.Value(k)
			if r.Chance(3, 5) || (j >= n-2 && len(names) < 2) {
				nm := fmt.Sprintf("p%d", j)
				leaf.Slots[j] = ref.Slot{Var: nm}
				names = append(names, nm)
			}
		}
		tpl := leaf
		if i%3 == 1 {
			tpl = &ref.Item{Kind: ref.L, Children: []*ref.Item{g.Scalar(ref.U1), leaf}}
		} else if i%3 == 2 {
			tpl = &ref.Item{Kind: ref.L, Children: []*ref.Item{{Kind: ref.L, Children: []*ref.Item{leaf}}, g.Scalar(ref.A)}}
		}
		var node ast.ItemNode
		if o := real.Try(func() { node = real.Build(tpl) }); o.Panicked {
			return
		}
		sub := fullAssignment(g, tpl)
		full, ok := ref.Fill(tpl, sub)
		if !ok || len(full.Vars()) != 0 {
			return
		}
		c.Class("item/derived-by-a-partial-fill")
		c.Note(rng.Hash64(ref.Encode(full))^uint64(i), true)
		for rep := 0; rep < 4; rep++ {
			perm := r.Perm(len(names))
			cut := 1 + r.Intn(len(names)-1)
			first, rest := map[string]interface{}{}, map[string]interface{}{}
			part := map[string]ref.Val{}
			for j, p := range perm {
				if j < cut {
					first[names[p]] = rawOf(sub[names[p]])
					part[names[p]] = sub[names[p]]
				} else {
					rest[names[p]] = rawOf(sub[names[p]])
				}
			}
			model, _ := ref.Fill(tpl, part)
			var half, whole ast.ItemNode
			var hb, mb, wb []byte
			var hv []string
			o := real.Try(func() {
				half = node.FillVariables(first)
				hb, hv = half.ToBytes(), half.Variables()
				mb = ast.NewDataMessage("", 1, 1, 1, "H->E", half).SetSessionIDAndSystemBytes(1, []byte{0, 0, 0, 1}).ToBytes()
				whole = half.FillVariables(rest)
				wb = whole.ToBytes()
			})
			cs := c02Case{Op: "item", Item: tpl}
			if o.Panicked {
				c.Violation("C02/partial-fill/refused", fmt.Sprintf("%s filled with %d of its %d variables, then with the rest: %s", clipS(ref.Print(tpl)), cut, len(names), o), cs)
				return
			}
			if len(hb) != 0 || len(mb) != 0 || !real.EqStrs(hv, model.Vars()) {
				c.Violation("C02/partial-fill/bytes-for-an-item-with-unfilled-variables", fmt.Sprintf("%s filled with only %v: ToBytes()=%x, in a message %x, Variables()=%v; %v are still unfilled (%s)", clipS(ref.Print(tpl)), keysOf(first), clipB(hb), clipB(mb), hv, model.Vars(), clipS(real.Str(half))), cs)
				return
			}
			if want := ref.Encode(full); !bytes.Equal(wb, want) {
				c.Violation("C02/partial-fill/bytes-differ-after-the-rest-was-filled", fmt.Sprintf("%s filled with %v and then %v: ToBytes()=%x, its values encode to %x", clipS(ref.Print(tpl)), keysOf(first), keysOf(rest), clipB(wb), clipB(want)), cs)
				return
			}
		}
	})
	// (e4) items that reach the encoder through the SML parser from long decimal literals: the bytes are the IEEE-754
	// pattern nearest to the decimal that was written (one rounding to the item's width)
	c.parallel(c.pick(6000, 60000), func(i int, r *rng.R) {
		k := ref.F4
		if i%5 == 4 {
			k = ref.F8
		}
		const prec = 600
		var lo, hi *big.Float
		if k == ref.F4 {
			b := gen.F4Bits(r) &^ 0x80000000
			if b >= 0x7F7FFFFF {
				b = 0x7F7FFFFE - uint32(r.Intn(100))
			}
			lo = new(big.Float).SetPrec(prec).SetFloat64(float64(math.Float32frombits(b)))
			hi = new(big.Float).SetPrec(prec).SetFloat64(float64(math.Float32frombits(b + 1)))
		} else {
			b := gen.F8Bits(r) &^ (1 << 63)
			if b >= 0x7FEFFFFFFFFFFFFF {
				b = 0x7FEFFFFFFFFFFFFE - uint64(r.Intn(100))
			}
			lo = new(big.Float).SetPrec(prec).SetFloat64(math.Float64frombits(b))
			hi = new(big.Float).SetPrec(prec).SetFloat64(math.Float64frombits(b + 1))
		}
		mid := new(big.Float).SetPrec(prec).Add(lo, hi)
		mid.Quo(mid, big.NewFloat(2))
		eps := new(big.Float).SetPrec(prec).Quo(mid, new(big.Float).SetPrec(prec).SetFloat64(math.Pow(10, float64(25+r.Intn(16)))))
		if r.Bool() {
			mid.Add(mid, eps)
		} else {
			mid.Sub(mid, eps)
		}
		if r.Bool() {
			mid.Neg(mid)
		}
		text := mid.Text('e', 60)
		exact, _, err := big.ParseFloat(text, 10, 2000, big.ToNearestEven)
		if err != nil {
			return
		}
		var want []byte
		if k == ref.F4 {
			f, _ := exact.Float32()
			want = ref.Encode(&ref.Item{Kind: k, Slots: []ref.Slot{{Uint: uint64(math.Float32bits(f))}}})
		} else {
			f, _ := exact.Float64()
			want = ref.Encode(&ref.Item{Kind: k, Slots: []ref.Slot{{Uint: math.Float64bits(f)}}})
		}
		src := fmt.Sprintf("S1F1 W H->E <%s %s> .", k, text)
		msgs, errs, _, o := smlParse(src)
		if o.Panicked || len(errs) > 0 || len(msgs) != 1 {
			c.Class("sml-sourced/not-accepted(C05's-subject)")
			return
		}
		var got []byte
		real.Try(func() { got = msgs[0].SetSessionIDAndSystemBytes(1, []byte{0, 0, 0, 1}).ToBytes() })
		c.Note(rng.HashStr(src), true)
		c.Class("item/sml-sourced-long-decimal")
		if len(got) < 14 || !bytes.Equal(got[14:], want) {
			c.Violation("C02/sml-sourced/bytes-differ", fmt.Sprintf("%s encodes to %x, the pattern nearest to the decimal is %x", src, clipB(got), want), c02Case{Op: "sml", Wire: src})
		}
	})
	// float items built from integer Go values of every type, up to the extremes (the pattern is that of the number given)
	{
		u64 := []uint64{0, 1, 1<<24 + 1, 1<<53 + 1, 1 << 63, 1<<63 + 1<<11, math.MaxUint64, math.MaxInt64, 1 << 62}
		i64 := []int64{-1, math.MinInt64, math.MinInt64 + 1, -(1<<53 + 1), math.MaxInt64, 1<<24 + 1}
		for _, k := range []ref.Kind{ref.F4, ref.F8} {
			check := func(arg interface{}, f float64) {
				var want []byte
				if k == ref.F4 {
					want = ref.Encode(&ref.Item{Kind: k, Slots: []ref.Slot{{Uint: uint64(math.Float32bits(float32(f)))}}})
				} else {
					want = ref.Encode(&ref.Item{Kind: k, Slots: []ref.Slot{{Uint: math.Float64bits(f)}}})
				}
				var got, got2 []byte
				o := real.Try(func() {
					got = real.Factory(k, arg).ToBytes()
					got2 = real.Factory(k, "v").FillVariables(map[string]interface{}{"v": arg}).ToBytes()
				})
				c.NoteBulk(1, 1)
				c.Class("item/float-from-integer-values")
				if o.Panicked {
					return // C12 decides which integer types the float factory takes
				}
				if k == ref.F4 && float64(float32(f)) != f {
					return // two roundings are possible for an F4 built from a wide integer: C12's subject
				}
				if !bytes.Equal(got, want) || !bytes.Equal(got2, want) {
					c.Violation("C02/item/float-from-integer/"+k.String(), fmt.Sprintf("%s from %T(%v): factory %x, fill %x, the number's pattern is %x", k, arg, arg, got, got2, want), c02Case{Op: "floatint", Bits: math.Float64bits(f)})
				}
			}
			for _, v := range u64 {
				check(v, float64(v))
				check(uint(v), float64(v))
			}
			for _, v := range i64 {
				check(v, float64(v))
				check(int(v), float64(v))
			}
			check(uint32(math.MaxUint32), float64(math.MaxUint32))
			check(int32(math.MinInt32), float64(math.MinInt32))
		}
	}
	// message headers that reach the encoder through the SML parser, keyword glued to what follows it
	for _, c2 := range []struct {
		text string
		w    int
		ok   bool
	}{
		{"S1F13 W// comment\n<U1 1> .", 1, true}, {"S1F13 W//c\n.", 1, true}, {"S1F13 W.", 1, true}, {"S1F13 W<U1 1>.", 1, true},
		{"S1F13 w H->E// c\n<U1 1> .", 1, true}, {"S1F13 H->E//c\n<U1 1>.", 0, true}, {"S1F13 W\t// c\r\n<U1 1> .", 1, true},
		{"S1F13 [W]// comment\n<U1 1> .", 2, false}, {"S1F13 [W].", 2, false}, {"S1F14// c\n<U1 1> .", 0, true},
	} {
		msgs, errs, _, o := smlParse(c2.text)
		c.NoteBulk(1, 1)
		c.Class("msg/sml-sourced-header-glued-to-a-comment")
		if o.Panicked || len(errs) > 0 || len(msgs) != 1 {
			continue // whether the spelling is accepted is C08's subject
		}
		var got []byte
		real.Try(func() { got = msgs[0].SetSessionIDAndSystemBytes(258, []byte{1, 2, 3, 4}).ToBytes() })
		if !c2.ok {
			if len(got) != 0 {
				c.Violation("C02/sml-sourced/partial-bytes-for-optional-wait-bit", fmt.Sprintf("%q encodes to %x (the wait bit is optional)", c2.text, got), c02Case{Op: "sml", Wire: c2.text})
			}
			continue
		}
		if len(got) < 14 || got[6]&0x80 != byte(c2.w)<<7 || got[6]&0x7F != 1 {
			c.Violation("C02/sml-sourced/header-byte-2", fmt.Sprintf("%q encodes to %x: W-bit|stream byte should be %02x", c2.text, clipB(got), byte(c2.w)<<7|1), c02Case{Op: "sml", Wire: c2.text})
		}
	}
	// adjacent list elements that are equal except for the sign of a zero, or equal altogether (elements are encoded one
	// by one, whatever they look like next to each other)
	for _, k := range []ref.Kind{ref.F4, ref.F8} {
		neg := uint64(1) << 63
		if k == ref.F4 {
			neg = 1 << 31
		}
		one := math.Float64bits(1.5)
		if k == ref.F4 {
			one = uint64(math.Float32bits(1.5))
		}
		z := func(bits ...uint64) *ref.Item {
			it := &ref.Item{Kind: k}
			for _, b := range bits {
				it.Slots = append(it.Slots, ref.Slot{Uint: b})
			}
			return it
		}
		for _, t := range []*ref.Item{
			{Kind: ref.L, Children: []*ref.Item{z(0), z(neg)}},
			{Kind: ref.L, Children: []*ref.Item{z(neg), z(0)}},
			{Kind: ref.L, Children: []*ref.Item{z(0, one), z(neg, one), z(0, one)}},
			{Kind: ref.L, Children: []*ref.Item{z(neg), z(neg), z(0), z(0), z(neg)}},
			{Kind: ref.L, Children: []*ref.Item{{Kind: ref.L, Children: []*ref.Item{z(0)}}, {Kind: ref.L, Children: []*ref.Item{z(neg)}}}},
			{Kind: ref.L, Children: []*ref.Item{z(0, neg), z(neg, 0)}},
		} {
			c02Item(c, t, "zero-sign-neighbours")
		}
	}
	// messages whose length field needs its fourth byte (text of 2^24 bytes or more): one giant item, and many large ones
	{
		big := &ref.Item{Kind: ref.A, Str: bytes.Repeat([]byte("q"), ref.MaxBytes-5)}
		c.Class("msg/length>=2^24")
		c02Msg(c, &ref.Msg{Stream: 5, Function: 1, W: 1, Dir: "H->E", Item: big, Session: 258, Sys: [4]byte{1, 2, 3, 4}})
		chunk := &ref.Item{Kind: ref.B, Slots: make([]ref.Slot, 1<<20)}
		many := &ref.Item{Kind: ref.L}
		for i := 0; i < 17; i++ {
			many.Children = append(many.Children, chunk)
		}
		c.Class("msg/length>=2^24")
		c02Msg(c, &ref.Msg{Stream: 6, Function: 11, W: 0, Dir: "H<-E", Item: many, Session: 1, Sys: [4]byte{0, 0, 0, 9}})
	}
	// a text at the item limit that arrives through a FILL: 16,777,215 characters encode with a three-byte length field;
	// one more has no SECS-II encoding - the fill is refused, or whatever comes back encodes to nothing (never to a header
	// whose length field wrapped)
	for _, n := range []int{ref.MaxBytes, ref.MaxBytes + 1, ref.MaxBytes + 1 + 255} {
		for route := 0; route < 3; route++ {
			text := strings.Repeat("z", n)
			var got, msgBytes []byte
			o := real.Try(func() {
				var tpl ast.ItemNode = ast.NewASCIINodeVariable("t", 0, -1)
				if route == 1 {
					tpl = ast.NewListNode(ast.NewUintNode(1, 1), ast.NewASCIINodeVariable("t", 3, -1))
				}
				if route == 2 {
					m := ast.NewDataMessage("", 1, 1, 1, "H->E", tpl).SetSessionIDAndSystemBytes(7, []byte{0, 0, 0, 2}).FillVariables(map[string]interface{}{"t": text})
					msgBytes = m.ToBytes()
					return
				}
				it := tpl.FillVariables(map[string]interface{}{"t": text})
				got = it.ToBytes()
				msgBytes = ast.NewDataMessage("", 1, 1, 1, "H->E", it).SetSessionIDAndSystemBytes(7, []byte{0, 0, 0, 2}).ToBytes()
			})
			c.NoteBulk(1, 1)
			c.Class("item/text-at-the-limit-by-fill")
			cs := c02Case{Op: "fill-limit"}
			if n == ref.MaxBytes {
				okItem := route == 2 || (len(got) >= 4+n && got[len(got)-n-4] == 0x43 && got[len(got)-n-3] == 0xFF && got[len(got)-n-2] == 0xFF && got[len(got)-n-1] == 0xFF)
				if o.Panicked || !okItem || len(msgBytes) < 14+4+n {
					c.Violation("C02/fill-limit/text-of-16777215-characters", fmt.Sprintf("route %d: %s; item bytes %d (%x..), message bytes %d", route, o, len(got), clipB(got), len(msgBytes)), cs)
				}
				continue
			}
			if !o.Panicked && (len(got) != 0 || len(msgBytes) != 0) {
				c.Violation("C02/fill-limit/bytes-for-a-text-beyond-the-item-limit", fmt.Sprintf("route %d: a fill with %d characters was accepted and encodes to %d bytes (%x..), in a message %d bytes (%x..)", route, n, len(got), clipB(got), len(msgBytes), clipB(msgBytes)), cs)
			}
		}
	}
	// round 10: an incomplete wide list is asked for its bytes (nothing comes back - and nothing may be left behind),
	// then a complete list of similar width is encoded; several times over, widths on both sides of 16, 256, 4096
	{
		r := c.rnd.Derive(210)
		leaf := func(i int) *ref.Item {
			switch i % 4 {
			case 0:
				return &ref.Item{Kind: ref.U1, Slots: []ref.Slot{{Uint: uint64(i % 251)}}}
			case 1:
				return &ref.Item{Kind: ref.A, Str: []byte(fmt.Sprintf("e%d", i))}
			case 2:
				return &ref.Item{Kind: ref.L, Children: []*ref.Item{{Kind: ref.BOOLEAN, Slots: []ref.Slot{{Uint: uint64(i & 1)}}}}}
			}
			return &ref.Item{Kind: ref.I2, Slots: []ref.Slot{{Int: int64(i) - 7}, {Int: int64(-i)}}}
		}
		for _, w := range []int{1, 2, 3, 8, 15, 16, 17, 31, 32, 33, 64, 100, 255, 256, 257, 1000, 4095, 4096, 4097} {
			for rep := 0; rep < 3; rep++ {
				hole := w - 1
				if rep == 1 {
					hole = w / 2
				} else if rep == 2 {
					hole = r.Intn(w)
				}
				tpl := &ref.Item{Kind: ref.L}
				full := &ref.Item{Kind: ref.L}
				for i := 0; i < w; i++ {
					if i == hole {
						tpl.Children = append(tpl.Children, &ref.Item{Kind: ref.U2, Slots: []ref.Slot{{Uint: 1}, {Var: fmt.Sprintf("hole%d", w)}}})
					} else {
						tpl.Children = append(tpl.Children, leaf(i))
					}
					full.Children = append(full.Children, leaf(i+rep+1))
				}
				var none, nested, got []byte
				o := real.Try(func() {
					none = real.Build(tpl).ToBytes()
					nested = real.Build(&ref.Item{Kind: ref.L, Children: []*ref.Item{leaf(1), tpl, leaf(2)}}).ToBytes()
					got = real.Build(full).ToBytes()
				})
				c.NoteBulk(1, 1)
				c.Class("item/complete-list-encoded-after-an-incomplete-one")
				cs := c02Case{Op: "incomplete-then-complete", Item: full}
				if o.Panicked {
					c.Violation("C02/item/constructor-refused-valid/L", o.String(), cs)
				} else if len(none) != 0 || len(nested) != 0 {
					c.Violation("C02/item/partial-bytes-for-an-incomplete-list", fmt.Sprintf("a list of %d elements with an unfilled variable in element %d encodes to %d bytes (%x..), nested in another list to %d", w, hole, len(none), clipB(none), len(nested)), cs)
				} else if want := ref.Encode(full); !bytes.Equal(got, want) {
					c.Violation("C02/item/bytes-differ/L/after-an-incomplete-list", fmt.Sprintf("a complete list of %d elements encoded right after an incomplete one: %d bytes %x, reference %d bytes %x", w, len(got), clipB(got), len(want), clipB(want)), cs)
				}
			}
		}
	}
	// an empty item (the placeholder the parsers use on errors) as a list element has no SECS-II encoding: a tree that
	// holds one encodes to nothing, and so does a message around it - never to a header without its text
	for _, build := range []func() ast.ItemNode{
		func() ast.ItemNode { return ast.NewListNode(ast.NewUintNode(1, 1), ast.NewEmptyItemNode()) },
		func() ast.ItemNode { return ast.NewListNode(ast.NewListNode(ast.NewEmptyItemNode())) },
		func() ast.ItemNode {
			return ast.NewListNode("lv", ast.NewBinaryNode(1)).FillVariables(map[string]interface{}{"lv": ast.NewEmptyItemNode()})
		},
	} {
		var itemBytes, msgBytes []byte
		o := real.Try(func() {
			it := build()
			itemBytes = it.ToBytes()
			msgBytes = ast.NewDataMessage("", 1, 1, 0, "H->E", it).SetSessionIDAndSystemBytes(3, []byte{0, 0, 0, 1}).ToBytes()
		})
		c.NoteBulk(1, 1)
		c.Class("empty-item-inside-a-list")
		if !o.Panicked && (len(itemBytes) != 0 || len(msgBytes) != 0) {
			c.Violation("C02/msg/partial-bytes-for-a-tree-with-an-empty-item", fmt.Sprintf("item bytes %x, message bytes %x", clipB(itemBytes), clipB(msgBytes)), c02Case{Op: "empty-item"})
		}
	}
	c.Required = []string{"item/complete-list-encoded-after-an-incomplete-one", "item/text-at-the-limit-by-fill", "empty-item-inside-a-list", "msg/length>=2^24", "msg/session-unset-again", "msg/complete", "msg/+vars", "msg/+optW", "msg/+nosession", "f4/finite-patterns", "f4round/in-range", "f4round/overflow", "lenbytes=3/A", "lenbytes=2/L", "item/decoded-from-another-spelling", "item/derived-by-several-fills", "item/derived-by-a-partial-fill", "item/sml-sourced-long-decimal", "item/zero-sign-neighbours", "item/float-from-integer-values", "msg/sml-sourced-header-glued-to-a-comment"}
}

func replayC02(c *ctx, raw json.RawMessage) {
	var cs c02Case
	if json.Unmarshal(raw, &cs) != nil {
		return
	}
	switch cs.Op {
	case "item":
		c02Item(c, cs.Item, "replay")
	case "msg":
		c02Msg(c, cs.Msg)
	case "f4bits":
		var bad int64
		c02F4Block(c, uint32(cs.Bits>>16), 1, &bad)
	case "f4round":
		c02F4Round(c, cs.Bits)
	case "decoded":
		c02Decoded(c, cs)
	case "sml":
		fmt.Println("C02 sml-sourced case: re-parse", cs.Wire, "and compare the item bytes with the correctly rounded pattern")
	}
}
