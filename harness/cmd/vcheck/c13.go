package main

import (
	"bytes"
	"encoding/json"
	"fmt"
	"runtime"
	"runtime/debug"
	"strings"
	"sync/atomic"
	"time"

	"verifharness/internal/real"
	"verifharness/internal/ref"
	"verifharness/internal/rng"

	"github.com/wolimst/lib-secs2-hsms-go/pkg/ast"
)

// C13 — the 16,777,215-byte limit and the length header are exact for every size.

type c13Case struct {
	Op   string `json:"op"` // header | item
	Kind string `json:"kind"`
	N    int    `json:"n"`
}

func init() { register("C13", "exploration", runC13, replayC13) }

// c13Header checks the header routine (hook H1) for one (format, n).
func c13Header(c *ctx, k ref.Kind, n int) bool {
	w := k.Width()
	got, err := ast.VerifHeaderBytes(k.HookName(), n)
	if n*w > ref.MaxBytes {
		if err == nil {
			c.Violation("C13/header/limit-not-enforced/"+k.String(), fmt.Sprintf("header for %s x %d (%d bytes) produced %x", k, n, n*w, got), c13Case{"header", k.String(), n})
			return false
		}
		return true
	}
	if err != nil {
		c.Violation("C13/header/refused-within-limit/"+k.String(), fmt.Sprintf("header for %s x %d (%d bytes): %v", k, n, n*w, err), c13Case{"header", k.String(), n})
		return false
	}
	ln := n * w
	var want [4]byte
	var wl int
	switch {
	case ln <= 255:
		want = [4]byte{k.Code()<<2 | 1, byte(ln)}
		wl = 2
	case ln <= 65535:
		want = [4]byte{k.Code()<<2 | 2, byte(ln >> 8), byte(ln)}
		wl = 3
	default:
		want = [4]byte{k.Code()<<2 | 3, byte(ln >> 16), byte(ln >> 8), byte(ln)}
		wl = 4
	}
	if len(got) != wl || !bytes.Equal(got, want[:wl]) {
		c.Violation(fmt.Sprintf("C13/header/wrong/%s/lenbytes=%d", k, wl-1), fmt.Sprintf("header for %s x %d (%d bytes) = %x want %x", k, n, ln, got, want[:wl]), c13Case{"header", k.String(), n})
		return false
	}
	if dl := ast.VerifDataByteLength(k.HookName(), n); dl != ln {
		c.Violation("C13/header/byte-length/"+k.String(), fmt.Sprintf("data byte length of %s x %d = %d want %d", k, n, dl, ln), c13Case{"header", k.String(), n})
		return false
	}
	return true
}

// c13Build constructs a real item of kind k with n elements (shared element).
func c13Build(k ref.Kind, n int) ast.ItemNode {
	if k == ref.A {
		return ast.NewASCIINode(strings.Repeat("a", n))
	}
	args := make([]interface{}, n)
	var v interface{}
	switch {
	case k == ref.L:
		v = ast.NewUintNode(1)
	case k == ref.B:
		v = 0xA5
	case k == ref.BOOLEAN:
		v = true
	case k.IsInt():
		v = int64(-2)
	case k.IsUint():
		v = uint64(254)
	default:
		v = float64(1.5)
	}
	for i := range args {
		args[i] = v
	}
	return real.Factory(k, args...)
}

func c13ElemBytes(k ref.Kind) []byte {
	switch {
	case k == ref.L:
		return []byte{0xA5, 0x00}
	case k == ref.A:
		return []byte{'a'}
	case k == ref.B:
		return []byte{0xA5}
	case k == ref.BOOLEAN:
		return []byte{1}
	case k.IsInt():
		return bytes.Repeat([]byte{0xFF}, k.Width()-1)
	}
	return nil
}

// c13Item checks a real item with n elements: constructible iff within the
// limit; non-empty encoding with the right header; the decoder reads the
// length back.
func c13Item(c *ctx, k ref.Kind, n int) {
	w := k.Width()
	ln := n * w
	var node ast.ItemNode
	o := real.Try(func() { node = c13Build(k, n) })
	c.Note(rng.Mix(uint64(k), uint64(n)), ln > 255)
	cs := c13Case{"item", k.String(), n}
	lb := 1
	if ln > 65535 {
		lb = 3
	} else if ln > 255 {
		lb = 2
	}
	if ln > ref.MaxBytes {
		c.Class("item/beyond-limit")
		if !o.Panicked {
			c.Violation("C13/item/accepted-beyond-limit/"+k.String(), fmt.Sprintf("%s with %d elements (%d bytes) was constructed", k, n, ln), cs)
		}
		return
	}
	c.Class(fmt.Sprintf("item/lenbytes=%d/%s", lb, k))
	if o.Panicked {
		c.Violation("C13/item/refused-within-limit/"+k.String(), fmt.Sprintf("%s with %d elements (%d bytes) refused: %s", k, n, ln, o), cs)
		return
	}
	if node.Size() != n {
		c.Violation("C13/item/size", fmt.Sprintf("%s Size()=%d want %d", k, node.Size(), n), cs)
	}
	b := node.ToBytes()
	hdr := ref.Header(k, ln)
	if k == ref.L {
		hdr = ref.Header(k, n)
	}
	total := len(hdr) + ln
	if k == ref.L {
		total = len(hdr) + 2*n
	}
	if len(b) == 0 || len(b) != total || !bytes.Equal(b[:len(hdr)], hdr) {
		c.Violation(fmt.Sprintf("C13/item/encoding/%s/lenbytes=%d", k, lb), fmt.Sprintf("%s x %d: ToBytes() has %d bytes, prefix %x; want %d bytes, prefix %x", k, n, len(b), clipB(b), total, hdr), cs)
		return
	}
	if total <= 4096 {
		// the bytes handed out are the caller's: wiped, and the item encoded again, the header is the header again
		keep := append([]byte(nil), b...)
		for i := range b {
			b[i] = 0
		}
		again := node.ToBytes()
		inList := ast.NewListNode(node, node).ToBytes()
		if !bytes.Equal(again, keep) || len(inList) != 2+2*len(keep) || !bytes.Equal(inList[2:2+len(keep)], keep) {
			c.Violation(fmt.Sprintf("C13/item/encoding-after-the-caller-wiped-the-result/%s", k), fmt.Sprintf("%s x %d: first ToBytes() %x; after the caller zeroed that slice ToBytes() gives %x and inside a list %x", k, n, clipB(keep), clipB(again), clipB(inList)), cs)
			return
		}
		b = keep
	}
	// decoder read-back
	m := &ref.Msg{Stream: 1, Function: 1, W: 0, Dir: "H<->E", Session: 7}
	full := append(ref.EncodeMessage(m), b...)
	ref.PatchLen(full)
	dec, ok, po := hsmsParse(full)
	if po.Panicked || !ok {
		c.Violation(fmt.Sprintf("C13/decoder/rejects/%s/lenbytes=%d", k, lb), fmt.Sprintf("hsms.Parse of a message holding %s x %d not ok (%s)", k, n, po), cs)
		return
	}
	rb := dec.ToBytes()
	if !bytes.Equal(rb, full) {
		c.Violation(fmt.Sprintf("C13/decoder/length-read-back/%s/lenbytes=%d", k, lb), fmt.Sprintf("decoded %s x %d re-encodes to %d bytes (prefix %x), input had %d", k, n, len(rb), clipB(rb), len(full)), cs)
		return
	}
	// the message framing of the real encoder (4-byte message length), not only the harness's own framing
	var viaMsg []byte
	if o := real.Try(func() {
		viaMsg = ast.NewHSMSDataMessage("", 1, 1, 0, "H<->E", node, 7, []byte{0, 0, 0, 0}).ToBytes()
	}); o.Panicked || !bytes.Equal(viaMsg, full) {
		c.Violation(fmt.Sprintf("C13/message-framing/%s/lenbytes=%d", k, lb), fmt.Sprintf("DataMessage.ToBytes() around %s x %d: %s, %d bytes, prefix %x; want %d bytes, prefix %x", k, n, o, len(viaMsg), clipB(viaMsg), len(full), clipB(full)), cs)
		return
	}
	if n <= 70000 && k != ref.A {
		if dm, isData := dec.(*ast.DataMessage); isData {
			want := fmt.Sprintf("<%s[%d]", k, n)
			if !strings.HasPrefix(itemPart(dm.String()), want) {
				c.Violation("C13/decoder/size-printed/"+k.String(), fmt.Sprintf("decoded item prints %q, want prefix %q", clipS(itemPart(dm.String())), want), cs)
			}
		}
	}
	if c.WantSample() && n > 200 {
		c.Sample(map[string]interface{}{"format": k.String(), "elements": n, "payload_bytes": ln, "header": fmt.Sprintf("%x", hdr), "encoded_len": len(b), "decoded_ok": true})
	}
}

func runC13(c *ctx) {
	c.Rule = "hook H1 sweep of the header routine over (format, n): thorough = every n with n*width in [0, 16777215+8*width] for all 14 formats (exhaustive); quick = every n within 300 bytes of 0, 255|256, 65535|65536 and the limit, plus every 257th n. Real items at n in {0,1,floor(255/w),+1,floor(65535/w),+1,floor(limit/w),+1} for all 14 formats: constructible iff within the limit, non-empty encoding with the arithmetic header, hsms.Parse reads the same length back. non-trivial = payload > 255 bytes; distinct by (format, n) Also (rounds 5-8): items at the limit inside a list; 16,777,215 elements reached by expansion; 14 formats x sizes 0..300 through the real encoder twice; results zeroed by the caller and encoded again; slice argument forms. Also (round 9): same-format neighbours in one list whose length fields share the leading byte (256|257, 300|400, 65536|65537 ..). Also (round 10): every decode runs on the harness's own copy of the frame, which is overwritten with two-byte UTF-8 sequences before the decoded item is measured and re-encoded."
	c.Assume = []string{"hook H1 (pkg/ast/verif_export.go, build tag verif) is a thin wrapper of the unexported header routine", "the arithmetic statement of the header in this file"}

	var swept, nontriv int64
	for k := ref.L; k < ref.NKinds; k++ {
		k := k
		w := k.Width()
		maxN := ref.MaxBytes/w + 8
		if c.thorough {
			const chunk = 1 << 16
			nchunks := (maxN + chunk) / chunk
			c.parallel(nchunks, func(ci int, _ *rng.R) {
				var s, nt int64
				for n := ci * chunk; n < (ci+1)*chunk && n <= maxN; n++ {
					c13Header(c, k, n)
					s++
					if n*w > 255 {
						nt++
					}
				}
				atomic.AddInt64(&swept, s)
				atomic.AddInt64(&nontriv, nt)
			})
		} else {
			var ns []int
			for _, centre := range []int{0, 255, 65535, ref.MaxBytes} {
				for d := -300; d <= 300; d++ {
					b := centre + d
					if b >= 0 && b%w == 0 {
						ns = append(ns, b/w)
					}
				}
			}
			for n := 0; n <= maxN; n += 257 {
				ns = append(ns, n)
			}
			for n := ref.MaxBytes / w; n <= maxN; n++ {
				ns = append(ns, n)
			}
			seen := map[int]bool{}
			for _, n := range ns {
				if seen[n] {
					continue
				}
				seen[n] = true
				c13Header(c, k, n)
				swept++
				if n*w > 255 {
					nontriv++
				}
			}
		}
	}
	c.NoteBulk(swept, nontriv)
	c.ClassN("header-sweep-points", swept)
	c.Exhaust = c.thorough
	c.Extra["header_sweep"] = map[string]interface{}{"points": swept, "exhaustive_over_all_sizes": c.thorough}

	// real items
	type job struct {
		k ref.Kind
		n int
	}
	var smallJobs, bigJobs []job
	for k := ref.L; k < ref.NKinds; k++ {
		w := k.Width()
		for _, n := range []int{0, 1, 255 / w, 255/w + 1, 65535 / w, 65535/w + 1, 100000 / w} {
			smallJobs = append(smallJobs, job{k, n})
		}
		if k != ref.L || c.thorough {
			// the 16.7M-child list takes over a minute (the decoder and the list
			// factory walk every child several times): thorough tier only
			bigJobs = append(bigJobs, job{k, ref.MaxBytes / w})
		}
		bigJobs = append(bigJobs, job{k, ref.MaxBytes/w + 1})
	}
	c.parallel(len(smallJobs), func(i int, _ *rng.R) { c13Item(c, smallJobs[i].k, smallJobs[i].n) })
	// giant items: a few at a time (each needs up to ~1.5 GB transient heap)
	sem := make(chan struct{}, 3)
	done := make(chan struct{}, len(bigJobs))
	for _, j := range bigJobs {
		j := j
		sem <- struct{}{}
		go func() {
			t0 := time.Now()
			c13Item(c, j.k, j.n)
			c.Max(fmt.Sprintf("giant_item_seconds/%s", j.k), time.Since(t0).Seconds())
			runtime.GC()
			debug.FreeOSMemory()
			<-sem
			done <- struct{}{}
		}()
	}
	for range bigJobs {
		<-done
	}
	// several length fields of different widths in one message, wide ones first (a decoder that keeps state between
	// length fields must not carry it over)
	for _, sizes := range [][]int{{256, 1}, {65536, 300, 5}, {300, 2, 70000, 1}, {1, 256, 1}, {65535, 65536, 255, 256, 0}} {
		var args []interface{}
		for _, sz := range sizes {
			args = append(args, c13Build(ref.B, sz), c13Build(ref.A, sz), c13Build(ref.U2, sz/2))
		}
		var b []byte
		o := real.Try(func() {
			b = ast.NewHSMSDataMessage("", 1, 1, 0, "H<->E", ast.NewListNode(args...), 7, []byte{0, 0, 0, 0}).ToBytes()
		})
		c.NoteBulk(1, 1)
		c.Class("mixed-length-fields")
		dec, ok, _ := hsmsParse(b)
		if o.Panicked || len(b) == 0 || !ok || !bytes.Equal(dec.ToBytes(), b) {
			c.Violation("C13/decoder/mixed-length-fields", fmt.Sprintf("a list of items with payload sizes %v does not decode back (built: %s, %d bytes, ok=%v)", sizes, o, len(b), ok), c13Case{"mixed", "B+A+U2", sizes[0]})
		}
	}
	// argument forms a factory might also take (a []byte for binary, a string of digits, a slice of ints): whatever is
	// accepted encodes with a correct length field and is within the limit; over the limit nothing is constructed
	for _, total := range []int{5, 300, ref.MaxBytes, ref.MaxBytes + 1} {
		forms := map[string]func() ast.ItemNode{
			"binary<-[]byte":        func() ast.ItemNode { return ast.NewBinaryNode(make([]byte, total)) },
			"binary<-two-[]byte":    func() ast.ItemNode { return ast.NewBinaryNode(make([]byte, total/2), make([]byte, total-total/2)) },
			"binary<-[]byte+values": func() ast.ItemNode { return ast.NewBinaryNode(make([]byte, total-1), 7) },
			"binary<-[]interface{}": func() ast.ItemNode { return ast.NewBinaryNode(make([]interface{}, total)) },
			"uint<-[]uint8":         func() ast.ItemNode { return ast.NewUintNode(1, make([]uint8, total)) },
			"int<-[]int8":           func() ast.ItemNode { return ast.NewIntNode(1, make([]int8, total)) },
			"boolean<-[]bool":       func() ast.ItemNode { return ast.NewBooleanNode(make([]bool, total)) },
		}
		for name, f := range forms {
			var node ast.ItemNode
			o := real.Try(func() { node = f() })
			c.NoteBulk(1, 1)
			c.Class("slice-argument-forms")
			if o.Panicked {
				continue // not an accepted argument form (the case on this tree)
			}
			b := node.ToBytes()
			if total > ref.MaxBytes || len(b) == 0 || node.Size() != total {
				c.Violation("C13/item/slice-argument-form/"+name, fmt.Sprintf("%s with %d elements in all was constructed: Size()=%d, ToBytes() has %d bytes", name, total, node.Size(), len(b)), c13Case{"form", name, total})
			}
		}
	}
	// a long run over many different (format, size) shapes, twice: the header an item gets the second time round is the
	// header it got the first time (whatever the encoder remembers about shapes it has seen)
	for pass := 0; pass < 2; pass++ {
		for k := ref.L; k < ref.NKinds; k++ {
			for n := 0; n <= 300; n++ {
				var got []byte
				o := real.Try(func() { got = c13Build(k, n).ToBytes() })
				want := ref.Header(k, n*k.Width())
				if k == ref.L {
					want = ref.Header(k, n)
				}
				c.NoteBulk(1, 1)
				if o.Panicked || len(got) < len(want) || !bytes.Equal(got[:len(want)], want) {
					c.Violation("C13/header/wrong-in-a-long-run", fmt.Sprintf("pass %d: %s[%d] encodes with header %x, want %x (%s)", pass+1, k, n, clipB(got), want, o), c13Case{"item", k.String(), n})
					pass = 2
					k = ref.NKinds
					break
				}
			}
		}
	}
	c.Class("shapes-encoded-twice-in-a-long-run")
	// an item at the limit next to other items in a list: the limit binds each length field, not the text of the message
	// around it (which the 4-byte message length covers)
	for _, k := range []ref.Kind{ref.A, ref.U1, ref.I8} {
		big := c13Build(k, ref.MaxBytes/k.Width())
		var b []byte
		o := real.Try(func() {
			b = ast.NewHSMSDataMessage("", 1, 1, 0, "H<->E", ast.NewListNode(big, c13Build(ref.B, 1), big, c13Build(ref.L, 0)), 7, []byte{0, 0, 0, 0}).ToBytes()
		})
		c.NoteBulk(1, 1)
		c.Class("items-at-the-limit-inside-a-list")
		dec, ok, _ := hsmsParse(b)
		good := !o.Panicked && ok && len(b) > 2*ref.MaxBytes/k.Width()*k.Width()
		if good {
			good = bytes.Equal(dec.ToBytes(), b)
		}
		if !good {
			c.Violation("C13/decoder/items-at-the-limit-inside-a-list", fmt.Sprintf("<L big%s[%d] <B[1]> big <L[0]>> does not decode back (built: %s, %d bytes, ok=%v)", k, ref.MaxBytes/k.Width(), o, len(b), ok), c13Case{"biglist", k.String(), ref.MaxBytes / k.Width()})
		}
		dec, b = nil, nil
		runtime.GC()
		debug.FreeOSMemory()
	}
	// a list that reaches the limit by expanding an ellipsis: exactly 16,777,215 elements can be constructed that way too,
	// one more cannot
	{
		tpl := ast.NewListNode(ast.NewBinaryNode(0), "...")
		for _, n := range []int{ref.MaxBytes - 1, ref.MaxBytes} {
			var got ast.ItemNode
			o := real.Try(func() { got = tpl.FillVariables(map[string]interface{}{"...": n}) })
			c.NoteBulk(1, 1)
			c.Class("list-at-the-limit-by-expansion")
			switch {
			case n+1 <= ref.MaxBytes && (o.Panicked || got.Size() != n+1):
				c.Violation("C13/item/refused-within-limit/L-by-expansion", fmt.Sprintf("expanding <L <B 0> ...> with %d (a list of %d elements): %s", n, n+1, o), c13Case{"expand", "L", n})
			case n+1 > ref.MaxBytes && !o.Panicked:
				c.Violation("C13/item/accepted-beyond-limit/L-by-expansion", fmt.Sprintf("expanding <L <B 0> ...> with %d gave a list of %d elements", n, got.Size()), c13Case{"expand", "L", n})
			}
			got = nil
			runtime.GC()
			debug.FreeOSMemory()
		}
	}
	// a list of 16,777,216 elements is beyond the limit whatever its last element is (item, variable, ellipsis)
	{
		args := make([]interface{}, ref.MaxBytes+1)
		leaf := ast.NewUintNode(1)
		for i := range args {
			args[i] = leaf
		}
		for _, last := range []interface{}{"...", "lastvar", "...[3]"} {
			args[len(args)-1] = last
			o := real.Try(func() { ast.NewListNode(args...) })
			c.NoteBulk(1, 1)
			c.Class("list-limit-with-variable-last")
			if !o.Panicked {
				c.Violation("C13/item/accepted-beyond-limit/L-with-variable", fmt.Sprintf("a list of %d elements ending in %q was constructed", len(args), last), c13Case{"listvar", "L", len(args)})
			}
		}
	}
	// two items of ONE format side by side whose length fields have the same width and the same leading byte but differ
	// behind it (256|257, 300|400, 65536|65537, 70000|70001 ..): each is decoded with its own length
	for _, k := range []ref.Kind{ref.B, ref.BOOLEAN, ref.A, ref.I1, ref.I2, ref.I4, ref.I8, ref.U1, ref.U2, ref.U4, ref.U8, ref.F4, ref.F8, ref.L} {
		for _, pair := range [][]int{{256, 257}, {257, 256}, {300, 400}, {256, 511, 256}, {264, 256 + 248}, {65536, 65537}, {70000, 70001}, {65536, 131064, 65544}, {1000, 1001, 1002, 1003}} {
			if k == ref.L && pair[0] > 300 {
				continue
			}
			var args []interface{}
			for _, bytesN := range pair {
				n := bytesN / k.Width()
				if k == ref.L {
					n = bytesN
				}
				args = append(args, c13Build(k, n))
			}
			var b []byte
			o := real.Try(func() {
				b = ast.NewHSMSDataMessage("", 1, 1, 0, "H<->E", ast.NewListNode(args...), 7, []byte{0, 0, 0, 0}).ToBytes()
			})
			c.NoteBulk(1, 1)
			c.Class("same-format-neighbours-with-related-lengths")
			dec, ok, _ := hsmsParse(b)
			if o.Panicked || len(b) == 0 || !ok || !bytes.Equal(dec.ToBytes(), b) {
				c.Violation("C13/decoder/same-format-neighbours-with-related-lengths", fmt.Sprintf("a list of %s items with payload sizes %v does not decode back (built: %s, %d bytes, ok=%v)", k, pair, o, len(b), ok), c13Case{"mixed", k.String(), pair[0]})
			}
		}
	}
	// bytes returned for one item stay what they were while other items are encoded
	{
		first := c13Build(ref.L, 0).ToBytes()
		keep1 := append([]byte(nil), first...) // what was returned, noted before anything else is encoded
		second := ast.NewListNode(c13Build(ref.B, 3), c13Build(ref.L, 2)).ToBytes()
		keep2 := append([]byte(nil), second...)
		_ = c13Build(ref.L, 255).ToBytes()
		_ = c13Build(ref.L, 65536).ToBytes()
		_ = c13Build(ref.A, 300).ToBytes()
		c.NoteBulk(1, 1)
		c.Class("earlier-encoding-re-read")
		if !bytes.Equal(first, keep1) || !bytes.Equal(second, keep2) {
			c.Violation("C13/earlier-result-changed-by-later-encoding", fmt.Sprintf("<L[0]> now reads %x (was %x); a nested list now reads %x (was %x)", clipB(first), keep1, clipB(second), clipB(keep2)), c13Case{"keep", "L", 0})
		}
	}
	// the limit also binds an ASCII value that arrives through FillVariables
	for _, n := range []int{ref.MaxBytes, ref.MaxBytes + 1} {
		var filled ast.ItemNode
		o := real.Try(func() {
			filled = ast.NewASCIINodeVariable("v", 0, -1).FillVariables(map[string]interface{}{"v": strings.Repeat("f", n)})
		})
		c.NoteBulk(1, 1)
		c.Class("ascii-fill-at-the-limit")
		if (n <= ref.MaxBytes) == o.Panicked {
			c.Violation("C13/fill/limit", fmt.Sprintf("filling %d characters into an ASCII variable: %s", n, o), c13Case{"fill", "A", n})
		} else if !o.Panicked && len(filled.ToBytes()) != n+4 {
			c.Violation("C13/fill/encoding", fmt.Sprintf("filled ASCII of %d characters encodes to %d bytes", n, len(filled.ToBytes())), c13Case{"fill", "A", n})
		}
	}
	c.Required = []string{"same-format-neighbours-with-related-lengths", "mixed-length-fields", "slice-argument-forms", "shapes-encoded-twice-in-a-long-run", "items-at-the-limit-inside-a-list", "list-at-the-limit-by-expansion", "list-limit-with-variable-last", "earlier-encoding-re-read", "ascii-fill-at-the-limit", "item/beyond-limit", "item/lenbytes=3/L", "item/lenbytes=3/A", "item/lenbytes=3/F8", "item/lenbytes=2/U2", "header-sweep-points"}
}

func replayC13(c *ctx, raw json.RawMessage) {
	var cs c13Case
	if json.Unmarshal(raw, &cs) != nil {
		return
	}
	k, ok := ref.KindByName(cs.Kind)
	if !ok {
		return
	}
	if cs.Op == "header" {
		c13Header(c, k, cs.N)
	} else {
		c13Item(c, k, cs.N)
	}
}
