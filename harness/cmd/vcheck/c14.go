package main

import (
	"bytes"
	"encoding/hex"
	"encoding/json"
	"fmt"
	"os"
	"os/exec"
	"runtime"
	"strings"
	"sync"
	"sync/atomic"

	"verifharness/internal/real"
	"verifharness/internal/ref"
	"verifharness/internal/rng"

	"github.com/wolimst/lib-secs2-hsms-go/pkg/ast"
)

// C14 — HSMS control messages are built, classified and decoded per HSMS.

type c14Case struct {
	Op      string `json:"op"`
	Session int    `json:"session,omitempty"`
	Sys     string `json:"sys,omitempty"`
	Code    int    `json:"code,omitempty"`
	PType   int    `json:"ptype,omitempty"`
	SType   int    `json:"stype,omitempty"`
	Header  string `json:"header,omitempty"`
	Req     string `json:"req,omitempty"`
}

func init() { register("C14", "exploration", runC14, replayC14) }

// the bytes returned for the previous message and what they should still be (an encoder that reuses a buffer
// changes them when the next message is encoded)
var c14Prev, c14PrevWant []byte
var c14PrevCase c14Case

func c14Expect(c *ctx, op string, msg ast.HSMSMessage, want [10]byte, typ string, cs c14Case) {
	b := msg.ToBytes()
	wb := append([]byte{0, 0, 0, 10}, want[:]...)
	if c14Prev != nil && !bytes.Equal(c14Prev, c14PrevWant) {
		c.Violation("C14/earlier-result-changed-by-later-encoding", fmt.Sprintf("bytes returned earlier were %x and now read %x after another message was encoded", c14PrevWant, c14Prev), c14PrevCase)
	}
	c14Prev, c14PrevWant, c14PrevCase = b, append([]byte(nil), wb...), cs
	c.Note(rng.Mix(rng.HashStr(op), rng.Hash64(wb)), true)
	c.Class("constructed/" + op)
	if !bytes.Equal(b, wb) {
		c.Violation("C14/layout/"+op, fmt.Sprintf("%s: ToBytes()=%x want %x", op, b, wb), cs)
		return
	}
	if msg.Type() != typ {
		c.Violation("C14/type/"+op, fmt.Sprintf("%s: Type()=%q want %q", op, msg.Type(), typ), cs)
		return
	}
	// decoding the bytes returns an equal message
	dec, ok, o := hsmsParse(b)
	if o.Panicked || !ok {
		c.Violation("C14/decode-rejects/"+op, fmt.Sprintf("hsms.Parse(%x) not ok (%s)", b, o), cs)
		return
	}
	if dec.Type() != typ || !bytes.Equal(dec.ToBytes(), b) {
		c.Violation("C14/decode-differs/"+op, fmt.Sprintf("decoded Type()=%q bytes=%x; want %q %x", dec.Type(), dec.ToBytes(), typ, b), cs)
	}
	// the bytes a message hands out are the caller's: overwriting them changes neither the message nor its next encoding
	for _, m := range []ast.HSMSMessage{msg, dec} {
		out := m.ToBytes()
		for i := range out {
			out[i] ^= 0xFF
		}
		if again := m.ToBytes(); !bytes.Equal(again, wb) || m.Type() != typ {
			c.Violation("C14/encoding-follows-overwritten-result/"+op, fmt.Sprintf("%s: after the caller overwrote the returned bytes, ToBytes()=%x Type()=%q; want %x %q", op, again, m.Type(), wb, typ), cs)
			return
		}
	}
	if c.WantSample() {
		c.Sample(map[string]interface{}{"constructor": op, "bytes": hex.EncodeToString(b), "type": typ})
	}
}

func hdr(session int, b2, b3, stype byte, sys []byte) [10]byte {
	var h [10]byte
	h[0], h[1] = byte(session>>8), byte(session)
	h[2], h[3], h[4], h[5] = b2, b3, 0, stype
	copy(h[6:], sys)
	return h
}

// c14Eval runs one constructor case.
func c14Eval(c *ctx, cs c14Case) {
	sys, _ := hex.DecodeString(cs.Sys)
	s16 := uint16(cs.Session)
	var msg ast.HSMSMessage
	build := func(f func()) bool {
		o := real.Try(f)
		if o.Panicked {
			c.Violation("C14/constructor-refused/"+cs.Op, cs.Op+": "+o.String(), cs)
			return false
		}
		return true
	}
	switch cs.Op {
	case "select.req":
		if build(func() { msg = ast.NewHSMSMessageSelectReq(s16, sys) }) {
			c14Expect(c, cs.Op, msg, hdr(cs.Session, 0, 0, 1, sys), "select.req", cs)
		}
	case "deselect.req":
		if build(func() { msg = ast.NewHSMSMessageDeselectReq(s16, sys) }) {
			c14Expect(c, cs.Op, msg, hdr(cs.Session, 0, 0, 3, sys), "deselect.req", cs)
		}
	case "separate.req":
		if build(func() { msg = ast.NewHSMSMessageSeparateReq(s16, sys) }) {
			c14Expect(c, cs.Op, msg, hdr(cs.Session, 0, 0, 9, sys), "separate.req", cs)
		}
	case "linktest.req":
		if build(func() { msg = ast.NewHSMSMessageLinktestReq(sys) }) {
			c14Expect(c, cs.Op, msg, hdr(0xFFFF, 0, 0, 5, sys), "linktest.req", cs)
		}
	case "select.rsp", "deselect.rsp":
		// ONE request object is answered three times, with the status of this case in the middle: every answer carries
		// its own status (a request is not changed by being answered, and does not remember its answer)
		stype, rspType := byte(2), "select.rsp"
		var req ast.HSMSMessage
		mk := func(code byte) func() {
			return func() {
				if cs.Op == "select.rsp" {
					msg = ast.NewHSMSMessageSelectRsp(req, code)
				} else {
					msg = ast.NewHSMSMessageDeselectRsp(req, code)
				}
			}
		}
		if cs.Op == "select.rsp" {
			req = ast.NewHSMSMessageSelectReq(s16, sys)
		} else {
			req = ast.NewHSMSMessageDeselectReq(s16, sys)
			stype, rspType = 4, "deselect.rsp"
		}
		for _, code := range []byte{byte(cs.Code) ^ 0xFF, byte(cs.Code), byte(cs.Code) + 1} {
			if build(mk(code)) {
				c14Expect(c, cs.Op, msg, hdr(cs.Session, 0, code, stype, sys), rspType, cs)
			}
		}
	case "linktest.rsp":
		if build(func() { msg = ast.NewHSMSMessageLinktestRsp(ast.NewHSMSMessageLinktestReq(sys)) }) {
			c14Expect(c, cs.Op, msg, hdr(0xFFFF, 0, 0, 6, sys), "linktest.rsp", cs)
		}
	case "reject.req":
		if build(func() { msg = ast.NewHSMSMessageRejectReq(s16, byte(cs.PType), byte(cs.SType), sys, byte(cs.Code)) }) {
			b2 := byte(cs.SType)
			if cs.Code == 2 {
				b2 = byte(cs.PType)
			}
			c14Expect(c, cs.Op, msg, hdr(cs.Session, b2, byte(cs.Code), 7, sys), "reject.req", cs)
		}
	case "raw-request-response":
		// a request that came off the wire (generic constructor, arbitrary remaining header bytes): the response echoes
		// session id and system bytes and nothing else of the request
		h, _ := hex.DecodeString(cs.Header)
		req := ast.NewHSMSControlMessage(h)
		sess := int(h[0])<<8 | int(h[1])
		switch h[5] {
		case 1:
			if build(func() { msg = ast.NewHSMSMessageSelectRsp(req, byte(cs.Code)) }) {
				c14Expect(c, "select.rsp<-raw", msg, hdr(sess, 0, byte(cs.Code), 2, h[6:10]), "select.rsp", cs)
			}
		case 3:
			if build(func() { msg = ast.NewHSMSMessageDeselectRsp(req, byte(cs.Code)) }) {
				c14Expect(c, "deselect.rsp<-raw", msg, hdr(sess, 0, byte(cs.Code), 4, h[6:10]), "deselect.rsp", cs)
			}
		case 5:
			if build(func() { msg = ast.NewHSMSMessageLinktestRsp(req) }) {
				c14Expect(c, "linktest.rsp<-raw", msg, hdr(0xFFFF, 0, 0, 6, h[6:10]), "linktest.rsp", cs)
			}
		}
		// the request itself is unchanged by having been answered
		if !bytes.Equal(req.ToBytes(), append([]byte{0, 0, 0, 10}, h...)) {
			c.Violation("C14/request-changed-by-response-constructor", fmt.Sprintf("request %x now encodes to %x", h, req.ToBytes()), cs)
		}
	case "type":
		// Type() is a total function of (PType, SType), independent of every other byte
		h, _ := hex.DecodeString(cs.Header)
		var t string
		var b []byte
		hArg := make([]byte, 10, 16)
		copy(hArg, h)
		o := real.Try(func() {
			m := ast.NewHSMSControlMessage(hArg)
			for i := range hArg[:16] {
				hArg[:16][i] ^= 0xC3 // the caller reuses its buffer
			}
			t = m.Type()
			b = m.ToBytes()
		})
		want := ref.ControlType(h[4], h[5])
		c.Note(rng.Hash64(h), h[4] != 0 || want != "undefined")
		c.Class("type/" + want)
		if o.Panicked || t != want {
			c.Violation("C14/type-table", fmt.Sprintf("header %x: Type()=%q (%s) want %q", h, t, o, want), cs)
		} else if !bytes.Equal(b, append([]byte{0, 0, 0, 10}, h...)) {
			c.Violation("C14/generic-constructor-bytes", fmt.Sprintf("header %x: ToBytes()=%x", h, b), cs)
		} else if want != "undefined" {
			dec, ok, po := hsmsParse(b)
			if po.Panicked || !ok || dec.Type() != want || !bytes.Equal(dec.ToBytes(), b) {
				c.Violation("C14/decode-defined-stype", fmt.Sprintf("hsms.Parse(%x): ok=%v", b, ok), cs)
			}
		}
	case "short-header":
		// fewer than ten bytes: zero padded
		h, _ := hex.DecodeString(cs.Header)
		var b []byte
		o := real.Try(func() { b = ast.NewHSMSControlMessage(h).ToBytes() })
		c.Note(rng.Mix(99, rng.Hash64(h)), true)
		c.Class("short-header")
		want := make([]byte, 14)
		want[3] = 10
		copy(want[4:], h)
		if o.Panicked || !bytes.Equal(b, want) {
			c.Violation("C14/short-header", fmt.Sprintf("NewHSMSControlMessage(%x): %s bytes=%x want %x", h, o, b, want), cs)
		}
	case "wrong-request":
		// a response constructor must refuse a request of another kind
		status := byte(cs.Session) | 1
		reqs := map[string]func() ast.HSMSMessage{
			"select.req":   func() ast.HSMSMessage { return ast.NewHSMSMessageSelectReq(s16, sys) },
			"deselect.req": func() ast.HSMSMessage { return ast.NewHSMSMessageDeselectReq(s16, sys) },
			"linktest.req": func() ast.HSMSMessage { return ast.NewHSMSMessageLinktestReq(sys) },
			"separate.req": func() ast.HSMSMessage { return ast.NewHSMSMessageSeparateReq(s16, sys) },
			"reject.req":   func() ast.HSMSMessage { return ast.NewHSMSMessageRejectReq(s16, 0, 1, sys, 1) },
			"select.rsp":   func() ast.HSMSMessage { return ast.NewHSMSMessageSelectRsp(ast.NewHSMSMessageSelectReq(s16, sys), 0) },
			"linktest.rsp": func() ast.HSMSMessage { return ast.NewHSMSMessageLinktestRsp(ast.NewHSMSMessageLinktestReq(sys)) },
			"undefined":    func() ast.HSMSMessage { return ast.NewHSMSControlMessage([]byte{0, 1, 0, 0, 0, 8, 1, 2, 3, 4}) },
			"ptype1-select": func() ast.HSMSMessage {
				return ast.NewHSMSControlMessage([]byte{0, 1, 0, 0, 1, 1, 1, 2, 3, 4})
			},
			"data message": func() ast.HSMSMessage {
				return ast.NewHSMSDataMessage("", 1, 1, 0, "H<->E", ast.NewEmptyItemNode(), 1, sys)
			},
		}
		rsps := map[string]struct {
			needs string
			f     func(ast.HSMSMessage)
		}{
			"select.rsp":   {"select.req", func(r ast.HSMSMessage) { ast.NewHSMSMessageSelectRsp(r, status) }},
			"deselect.rsp": {"deselect.req", func(r ast.HSMSMessage) { ast.NewHSMSMessageDeselectRsp(r, status) }},
			"linktest.rsp": {"linktest.req", func(r ast.HSMSMessage) { ast.NewHSMSMessageLinktestRsp(r) }},
		}
		for rn, mk := range reqs {
			for pn, rsp := range rsps {
				req := mk()
				o := real.Try(func() { rsp.f(req) })
				c.Note(rng.Mix(rng.HashStr(rn), rng.HashStr(pn)), true)
				c.Class("request-kind-check")
				if (rn == rsp.needs) == o.Panicked {
					c.Violation("C14/wrong-request/"+pn+"<-"+rn, fmt.Sprintf("%s given a %s: %s", pn, rn, o), cs)
				}
				if !o.Panicked {
					continue
				}
				// round 10: the constructors called right after a refused answer (status %d) build what they build at any
				// other time - nothing of the refused call is found in them
				c.Class("constructors-right-after-a-refused-answer")
				after := []struct {
					op  string
					f   func() ast.HSMSMessage
					h   [10]byte
					typ string
				}{
					{"select.req", func() ast.HSMSMessage { return ast.NewHSMSMessageSelectReq(s16, sys) }, hdr(cs.Session, 0, 0, 1, sys), "select.req"},
					{"deselect.req", func() ast.HSMSMessage { return ast.NewHSMSMessageDeselectReq(s16, sys) }, hdr(cs.Session, 0, 0, 3, sys), "deselect.req"},
					{"linktest.req", func() ast.HSMSMessage { return ast.NewHSMSMessageLinktestReq(sys) }, hdr(0xFFFF, 0, 0, 5, sys), "linktest.req"},
					{"separate.req", func() ast.HSMSMessage { return ast.NewHSMSMessageSeparateReq(s16, sys) }, hdr(cs.Session, 0, 0, 9, sys), "separate.req"},
					{"linktest.rsp", func() ast.HSMSMessage { return ast.NewHSMSMessageLinktestRsp(ast.NewHSMSMessageLinktestReq(sys)) }, hdr(0xFFFF, 0, 0, 6, sys), "linktest.rsp"},
					{"select.rsp", func() ast.HSMSMessage { return ast.NewHSMSMessageSelectRsp(ast.NewHSMSMessageSelectReq(s16, sys), 0) }, hdr(cs.Session, 0, 0, 2, sys), "select.rsp"},
					{"reject.req", func() ast.HSMSMessage { return ast.NewHSMSMessageRejectReq(s16, 0, 3, sys, 1) }, hdr(cs.Session, 3, 1, 7, sys), "reject.req"},
				}
				a := after[int(rng.Mix(rng.HashStr(rn), rng.HashStr(pn))%uint64(len(after)))]
				var m2 ast.HSMSMessage
				if o2 := real.Try(func() { m2 = a.f() }); o2.Panicked {
					c.Violation("C14/constructor-refused/after-a-refused-answer/"+a.op, a.op+" right after "+pn+" refused a "+rn+": "+o2.String(), cs)
				} else {
					c14Expect(c, a.op+"(after-a-refused-answer)", m2, a.h, a.typ, cs)
				}
				// and the refused call is made again before every one of them in turn
				for _, a := range after {
					real.Try(func() { rsp.f(req) })
					if o2 := real.Try(func() { m2 = a.f() }); !o2.Panicked {
						c14Expect(c, a.op+"(after-a-refused-answer)", m2, a.h, a.typ, cs)
					}
				}
			}
		}
	}
}

// wrappedMsg is a caller's own message type around a library message.
type wrappedMsg struct {
	ast.HSMSMessage
	note string
}

// c14FirstChild: the child side of the first-use probe (see runC14). Prints FIRST-OK or FIRST-BAD lines.
func c14FirstChild() {
	G := runtime.NumCPU()
	if G > 16 {
		G = 16
	}
	var arrived int32
	var wg sync.WaitGroup
	bad := make([]string, G)
	for g := 0; g < G; g++ {
		wg.Add(1)
		go func(g int) {
			defer wg.Done()
			hs := make([]ast.HSMSMessage, 0, 16)
			for st := 0; st < 16; st++ {
				hs = append(hs, ast.NewHSMSControlMessage([]byte{0, byte(g), 0, 0, 0, byte((st + g) % 16), 1, 2, 3, byte(g)}))
			}
			atomic.AddInt32(&arrived, 1)
			for atomic.LoadInt32(&arrived) < int32(G) {
			}
			for st, m := range hs {
				if got, want := m.Type(), ref.ControlType(0, byte((st+g)%16)); got != want && bad[g] == "" {
					bad[g] = fmt.Sprintf("SType %d reported %q, want %q", (st+g)%16, got, want)
				}
			}
		}(g)
	}
	wg.Wait()
	for g, b := range bad {
		if b != "" {
			fmt.Printf("FIRST-BAD goroutine %d of %d: %s\n", g, G, b)
			return
		}
	}
	fmt.Println("FIRST-OK")
}

func runC14(c *ctx) {
	c.Rule = "exhaustive: all 65536 (PType,SType) pairs x 4 fillings of the other header bytes for Type() and the generic constructor; all 65536 session ids for each request constructor; all 256 status/reason codes; reject.req over all 256x256 (pType,sType) for reason 2 and a non-2 reason; every (request kind x response constructor) pair including a data message and an undefined message as the wrong request; headers shorter than ten bytes; system bytes boundary + random. Each constructed message is also decoded and compared. non-trivial = SType defined or PType != 0; distinct by (constructor, header) Also (rounds 6-8): returned bytes overwritten and encoded again; one request answered three times with different status; requests wrapped in a caller's type; the first Type() calls of a process made from all cores in 96/960 fresh child processes. Also (round 9): sessions 0, 10, 14, 0x0A00, 0x0E00, 0xFFFF x all 256 codes x system bytes that read like a length field. Also (round 10): every constructor is called right after every refused answer (non-zero status) and its layout compared."
	c.Assume = []string{"the layout table in the property statement", "NewHSMSControlMessage with more than ten bytes is outside the stated domain (it panics; a panic is a refusal) and is not asserted"}
	c.Exhaust = true
	// the very first Type() calls of a process, from as many goroutines as there are cores, released by a spin barrier
	// (the type is a function of the header from the first call on, whoever asks first). A process has only one first
	// time, so this runs in fresh child processes of this binary, many times.
	{
		exe, _ := os.Executable()
		n := c.pick(96, 960)
		var wg sync.WaitGroup
		sem := make(chan struct{}, 8)
		var mu sync.Mutex
		firstBad := ""
		ran := 0
		for i := 0; i < n; i++ {
			wg.Add(1)
			sem <- struct{}{}
			go func() {
				defer wg.Done()
				defer func() { <-sem }()
				cmd := exec.Command(exe, "-prop", "C14")
				cmd.Env = append(os.Environ(), "VERIF_C14_FIRST=1")
				out, err := cmd.CombinedOutput()
				mu.Lock()
				defer mu.Unlock()
				if strings.Contains(string(out), "FIRST-OK") {
					ran++
				}
				if strings.Contains(string(out), "FIRST-BAD") && firstBad == "" {
					firstBad = firstLines(string(out), 3)
				} else if err != nil && !strings.Contains(string(out), "FIRST-") && firstBad == "" {
					firstBad = "child ended abnormally: " + firstLines(string(out), 6)
				}
			}()
		}
		wg.Wait()
		c.NoteBulk(int64(n), int64(n))
		c.ClassN("first-type-calls-of-a-process-made-concurrently", int64(ran))
		if firstBad != "" {
			c.Violation("C14/type-table/first-calls-concurrent", "in a fresh process, among the first Type() calls made at once: "+firstBad, c14Case{Op: "type-first"})
		}
	}
	// a request that reaches a response constructor wrapped in a caller's own type (it embeds the library's message): it
	// is answered like the request it wraps (session id and system bytes echoed), or refused - never answered wrongly
	{
		sys := []byte{0xCA, 0xFE, 0xBA, 0xBE}
		reqs := map[string]ast.HSMSMessage{
			"select.req":   ast.NewHSMSMessageSelectReq(0x1234, sys),
			"deselect.req": ast.NewHSMSMessageDeselectReq(0x1234, sys),
			"linktest.req": ast.NewHSMSMessageLinktestReq(sys),
		}
		for kind, req := range reqs {
			w := wrappedMsg{HSMSMessage: req, note: "received at t0"}
			var rsp ast.HSMSMessage
			o := real.Try(func() {
				switch kind {
				case "select.req":
					rsp = ast.NewHSMSMessageSelectRsp(w, 3)
				case "deselect.req":
					rsp = ast.NewHSMSMessageDeselectRsp(w, 3)
				default:
					rsp = ast.NewHSMSMessageLinktestRsp(w)
				}
			})
			c.NoteBulk(1, 1)
			c.Class("wrapped-request")
			if o.Panicked {
				continue
			}
			rb, qb := rsp.ToBytes(), req.ToBytes()
			if len(rb) != 14 || !bytes.Equal(rb[4:6], qb[4:6]) || !bytes.Equal(rb[10:14], qb[10:14]) {
				c.Violation("C14/wrapped-request-answered-wrongly/"+kind, fmt.Sprintf("request %x wrapped in a caller type was answered with %x (session id and system bytes are not echoed)", qb, rb), c14Case{Op: "wrapped/" + kind})
			}
		}
	}
	r := c.rnd.Derive(1)
	sysTable := [][]byte{{0, 0, 0, 0}, {0xFF, 0xFF, 0xFF, 0xFF}, {0, 0, 0, 1}, {0x80, 0, 0, 0}, {1, 2, 3, 4}}
	pickSys := func() string {
		if r.Bool() {
			return hex.EncodeToString(sysTable[r.Intn(len(sysTable))])
		}
		return hex.EncodeToString(r.Bytes(4))
	}
	for s := 0; s < 65536; s++ {
		for _, op := range []string{"select.req", "deselect.req", "separate.req"} {
			c14Eval(c, c14Case{Op: op, Session: s, Sys: pickSys()})
		}
		c14Eval(c, c14Case{Op: "select.rsp", Session: s, Sys: pickSys(), Code: r.Intn(256)})
		c14Eval(c, c14Case{Op: "deselect.rsp", Session: s, Sys: pickSys(), Code: r.Intn(256)})
	}
	for code := 0; code < 256; code++ {
		for rep := 0; rep < 8; rep++ {
			s := r.Intn(65536)
			c14Eval(c, c14Case{Op: "select.rsp", Session: s, Sys: pickSys(), Code: code})
			c14Eval(c, c14Case{Op: "deselect.rsp", Session: s, Sys: pickSys(), Code: code})
			c14Eval(c, c14Case{Op: "reject.req", Session: s, Sys: pickSys(), Code: code, PType: r.Intn(256), SType: r.Intn(256)})
		}
	}
	// header fields that, read together, look like framing: session id 0 with a small status or reason code makes the
	// header start with 00 00 00 0A, the length field of a control message (also 0E, and the same in the system bytes)
	for _, s := range []int{0, 10, 14, 0x0A00, 0x0E00, 0xFFFF} {
		for code := 0; code < 256; code++ {
			for _, sys := range []string{"0000000a", "0000000e", "00000000", pickSys()} {
				c.Class("header-bytes-that-read-like-framing")
				c14Eval(c, c14Case{Op: "select.rsp", Session: s, Sys: sys, Code: code})
				c14Eval(c, c14Case{Op: "deselect.rsp", Session: s, Sys: sys, Code: code})
				c14Eval(c, c14Case{Op: "reject.req", Session: s, Sys: sys, Code: code, PType: code & 1, SType: code & 0xF})
				c14Eval(c, c14Case{Op: "reject.req", Session: s, Sys: sys, Code: code, PType: 0, SType: 0})
			}
		}
	}
	for p := 0; p < 256; p++ {
		for s := 0; s < 256; s++ {
			c14Eval(c, c14Case{Op: "reject.req", Session: r.Intn(65536), Sys: pickSys(), Code: 2, PType: p, SType: s})
			other := []int{1, 3, 4, 0, 255, 5 + r.Intn(250)}[r.Intn(6)]
			c14Eval(c, c14Case{Op: "reject.req", Session: r.Intn(65536), Sys: pickSys(), Code: other, PType: p, SType: s})
		}
	}
	for i := 0; i < c.pick(2000, 200000); i++ {
		c14Eval(c, c14Case{Op: "linktest.req", Sys: pickSys()})
		c14Eval(c, c14Case{Op: "linktest.rsp", Sys: pickSys()})
	}
	for p := 0; p < 256; p++ {
		for s := 0; s < 256; s++ {
			for fill := 0; fill < 4; fill++ {
				var h []byte
				switch fill {
				case 0:
					h = make([]byte, 10)
				case 1:
					h = bytes.Repeat([]byte{0xFF}, 10)
				default:
					h = r.Bytes(10)
				}
				h[4], h[5] = byte(p), byte(s)
				c14Eval(c, c14Case{Op: "type", Header: hex.EncodeToString(h)})
			}
		}
	}
	for i := 0; i < c.pick(20000, 300000); i++ {
		h := r.Bytes(10)
		h[4] = 0
		h[5] = []byte{1, 3, 5}[i%3]
		c14Eval(c, c14Case{Op: "raw-request-response", Header: hex.EncodeToString(h), Code: r.Intn(256)})
	}
	for n := 0; n < 10; n++ {
		for rep := 0; rep < 20; rep++ {
			h := r.Bytes(n)
			c14Eval(c, c14Case{Op: "short-header", Header: hex.EncodeToString(h)})
		}
	}
	for rep := 0; rep < 50; rep++ {
		c14Eval(c, c14Case{Op: "wrong-request", Session: r.Intn(65536), Sys: pickSys()})
	}
	c.Required = []string{"header-bytes-that-read-like-framing", "first-type-calls-of-a-process-made-concurrently", "wrapped-request", "constructed/select.req", "constructed/reject.req", "constructed/linktest.rsp", "constructed/linktest.rsp<-raw", "constructed/select.rsp<-raw", "type/undefined", "type/separate.req", "request-kind-check", "constructors-right-after-a-refused-answer", "short-header"}
}

func replayC14(c *ctx, raw json.RawMessage) {
	var cs c14Case
	if json.Unmarshal(raw, &cs) == nil {
		c14Eval(c, cs)
	}
}
