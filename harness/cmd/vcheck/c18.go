package main

import (
	"bytes"
	"encoding/json"
	"fmt"
	"math"
	"strings"

	"verifharness/internal/gen"
	"verifharness/internal/real"
	"verifharness/internal/ref"
	"verifharness/internal/rng"

	"github.com/wolimst/lib-secs2-hsms-go/pkg/ast"
)

// C18 — message producers change exactly the fields they name.

type prodOp struct {
	Kind    string             `json:"kind"` // wait | session | fill
	B       bool               `json:"b,omitempty"`
	Session int                `json:"session,omitempty"`
	Sys     []byte             `json:"sys,omitempty"`
	Sub     map[string]ref.Val `json:"sub,omitempty"`
	Bad     string             `json:"bad,omitempty"` // variable that receives an out-of-domain value
}

type c18Case struct {
	Msg *ref.Msg `json:"msg"`
	Ops []prodOp `json:"ops"`
}

func init() { register("C18", "exploration", runC18, replayC18) }

// modelApply applies a producer to the model; refused=true when the
// statement says the call must be refused.
func modelApply(m *ref.Msg, op prodOp) (*ref.Msg, bool) {
	n := *m
	switch op.Kind {
	case "wait":
		if m.W != 2 {
			return &n, false
		}
		if op.B && m.Function%2 == 0 {
			return nil, true
		}
		n.W = 0
		if op.B {
			n.W = 1
		}
	case "session":
		if op.Session < -1 || op.Session > 65535 {
			return nil, true
		}
		n.Session = op.Session
		n.Sys = [4]byte{}
		copy(n.Sys[:], op.Sys)
	case "fill":
		if m.Item == nil {
			return &n, false
		}
		if op.Bad != "" {
			for _, v := range m.Item.Vars() {
				if v == op.Bad {
					return nil, true
				}
			}
		}
		it, ok := ref.Fill(m.Item, op.Sub)
		if !ok {
			return nil, true
		}
		n.Item = it
	}
	return &n, false
}

func rawSub(sub map[string]ref.Val, bad string) map[string]interface{} {
	raw := map[string]interface{}{}
	for k, v := range sub {
		raw[k] = rawOf(v)
	}
	if bad != "" {
		raw[bad] = struct{ X int }{1} // no factory accepts this
		if rng.HashStr(bad)%2 == 0 {
			raw[bad] = nil // nor this: a key that is present with no value (round 10)
		}
	}
	return raw
}

type callerBufferWritten string

func realApply(m *ast.DataMessage, op prodOp) (out *ast.DataMessage, o real.Outcome) {
	o = real.Try(func() {
		switch op.Kind {
		case "wait":
			out = m.SetWaitBit(op.B)
		case "session":
			// the argument is the front of a larger caller-owned buffer: the call must not write to that buffer, and
			// what the caller does to it afterwards must not reach the message
			buf := make([]byte, len(op.Sys)+8)
			copy(buf, op.Sys)
			for i := len(op.Sys); i < len(buf); i++ {
				buf[i] = 0xEE
			}
			out = m.SetSessionIDAndSystemBytes(op.Session, buf[:len(op.Sys)])
			for i := len(op.Sys); i < len(buf); i++ {
				if buf[i] != 0xEE {
					panic(callerBufferWritten(fmt.Sprintf("SetSessionIDAndSystemBytes wrote to the caller's buffer beyond the %d-byte argument: %x", len(op.Sys), buf)))
				}
			}
			for i := range buf {
				buf[i] = 0x77
			}
		case "fill":
			out = m.FillVariables(rawSub(op.Sub, op.Bad))
		}
	})
	return
}

// frameDiff compares every observable field of a real message with the model.
func frameDiff(s real.MsgSnap, m *ref.Msg) string {
	ws := []string{"false", "true", "optional"}[m.W]
	switch {
	case s.Name != m.Name:
		return fmt.Sprintf("Name %q want %q", s.Name, m.Name)
	case s.Stream != m.Stream:
		return fmt.Sprintf("StreamCode %d want %d", s.Stream, m.Stream)
	case s.Function != m.Function:
		return fmt.Sprintf("FunctionCode %d want %d", s.Function, m.Function)
	case s.WaitBit != ws:
		return fmt.Sprintf("WaitBit %s want %s", s.WaitBit, ws)
	case s.Direction != m.Dir:
		return fmt.Sprintf("Direction %s want %s", s.Direction, m.Dir)
	case s.Session != m.Session:
		return fmt.Sprintf("SessionID %d want %d", s.Session, m.Session)
	case s.Sys != fmt.Sprintf("%x", m.Sys[:]):
		return fmt.Sprintf("SystemBytes %s want %x", s.Sys, m.Sys[:])
	case s.Header != ref.HeaderText(m):
		return fmt.Sprintf("Header %q want %q", s.Header, ref.HeaderText(m))
	}
	var wantVars []string
	if m.Item != nil {
		wantVars = m.Item.Vars()
	}
	if !real.EqStrs(ref.NormEllipsis(s.Vars), ref.NormEllipsis(wantVars)) {
		return fmt.Sprintf("Variables %q want %q", s.Vars, wantVars)
	}
	if d := ref.MatchPrinted(s.Str, ref.MsgSegs(m)); d != "" {
		return "String: " + d
	}
	var wantBytes []byte
	if m.Complete() {
		wantBytes = ref.EncodeMessage(m)
	}
	if !bytes.Equal([]byte(s.Bytes), wantBytes) {
		return fmt.Sprintf("ToBytes %x want %x", clipB([]byte(s.Bytes)), clipB(wantBytes))
	}
	return ""
}

// c18Expand: a template with ellipses inside a message in any completeness state, filled in ONE call with the repeat
// counts and the values for the names the expansion generates; then the same map object is passed to a sibling
// derived from the same message. Only the item tree may change, and the map is the caller's.
func c18Expand(c *ctx, i int, r *rng.R) {
	g := gen.New(r, gen.Profile{MaxDepth: 1 + r.Intn(3), Vars: true, Ellipsis: true, PlainNames: true, Budget: 80, MaxKids: 3, MaxElems: 3})
	tpl := g.Tree()
	if tpl.Kind != ref.L {
		return
	}
	counts := map[string]int{}
	for _, v := range tpl.Vars() {
		if ref.IsEllipsisName(v) {
			counts[v] = r.Intn(3)
		}
	}
	if len(counts) == 0 {
		return
	}
	m := g.Msg(tpl, false)
	m.W = []int{0, 1, 2}[r.Intn(3)]
	if m.W == 1 && m.Function%2 == 0 {
		m.W = 2
	}
	if r.Bool() {
		m.Session = -1
		m.Sys = [4]byte{} // a message that was never stamped has no system bytes
	} else if r.Chance(1, 3) {
		m.Session = []int{0, 1, 65535}[r.Intn(3)]
	}
	cs := c18Case{Msg: m, Ops: []prodOp{{Kind: "expand-and-fill"}}}
	var msg *ast.DataMessage
	if o := real.Try(func() { msg = real.BuildMsg(m) }); o.Panicked {
		return // name collisions of generated templates are C12's subject
	}
	exp := ref.Expand(tpl, counts)
	vals := fullAssignment(g, exp)
	filled, ok := ref.Fill(exp, vals)
	if !ok {
		return
	}
	all := map[string]interface{}{}
	for k, n := range counts {
		all[k] = n
	}
	for k, v := range vals {
		all[k] = rawOf(v)
	}
	want := *m
	want.Item = filled
	before := real.Snap(msg)
	var m1 *ast.DataMessage
	if o := real.Try(func() { m1 = msg.FillVariables(all) }); o.Panicked {
		c.Class("expand-and-fill/refused(skipped)") // generated names that collide: both orders refuse (C10/C12)
		return
	}
	c.Class("producer/expand-and-fill-in-one-call")
	c.Note(rng.HashStr(ref.PrintMsg(m)+fmt.Sprint(counts)), true)
	if d := before.Diff(real.Snap(msg)); d != "" {
		c.Violation("C18/receiver-changed/expand-and-fill", d, cs)
		return
	}
	if d := frameDiff(real.Snap(m1), &want); d != "" {
		c.Violation("C18/frame/expand-and-fill-in-one-call", fmt.Sprintf("%s; template %s counts %v", d, clipS(ref.PrintMsg(m)), counts), cs)
		return
	}
	// the same map object again, on a sibling derived from the same message
	sib := msg
	wantSib := want
	if m.W == 2 {
		b := m.Function%2 == 1 && r.Bool()
		if o := real.Try(func() { sib = msg.SetWaitBit(b) }); o.Panicked {
			return
		}
		wantSib.W = 0
		if b {
			wantSib.W = 1
		}
	} else {
		if o := real.Try(func() { sib = msg.SetSessionIDAndSystemBytes(77, []byte{7, 7, 7, 7}) }); o.Panicked {
			return
		}
		wantSib.Session, wantSib.Sys = 77, [4]byte{7, 7, 7, 7}
	}
	var m2 *ast.DataMessage
	if o := real.Try(func() { m2 = sib.FillVariables(all) }); o.Panicked {
		c.Violation("C18/frame/second-fill-from-the-same-map/refused", fmt.Sprintf("%s; template %s", o, clipS(ref.PrintMsg(m))), cs)
		return
	}
	c.Class("producer/second-fill-from-the-same-map")
	if d := frameDiff(real.Snap(m2), &wantSib); d != "" {
		c.Violation("C18/frame/second-fill-from-the-same-map", fmt.Sprintf("%s; template %s counts %v", d, clipS(ref.PrintMsg(m)), counts), cs)
	}
}

// c18Partial: some of a message's ellipses are expanded, at least two remain. Only the item tree changes, and the
// remaining ellipses carry the names a caller can address next: "...[0]", "...[1]", .. in order of appearance -
// whatever was expanded earlier in the process.
func c18Partial(c *ctx, i int, r *rng.R) {
	g := gen.New(r, gen.Profile{MaxDepth: 2 + r.Intn(3), Vars: true, Ellipsis: true, PlainNames: true, Budget: 120, MaxKids: 4, MaxElems: 2})
	tpl := g.Tree()
	var ells []string
	for _, v := range tpl.Vars() {
		if ref.IsEllipsisName(v) {
			ells = append(ells, v)
		}
	}
	if tpl.Kind != ref.L || len(ells) < 3 {
		return
	}
	counts := map[string]int{}
	raw := map[string]interface{}{}
	k := ells[r.Intn(len(ells))]
	counts[k] = r.Intn(3)
	raw[k] = counts[k]
	m := g.Msg(tpl, false)
	var msg, got *ast.DataMessage
	if o := real.Try(func() { msg = real.BuildMsg(m) }); o.Panicked {
		return
	}
	if o := real.Try(func() { got = msg.FillVariables(raw) }); o.Panicked {
		return
	}
	want := *m
	want.Item = ref.Expand(tpl, counts)
	cs := c18Case{Msg: m, Ops: []prodOp{{Kind: "expand-some"}}}
	c.Class("producer/expand-some-ellipses")
	c.Note(rng.HashStr(ref.PrintMsg(m)+k), true)
	snap := real.Snap(got)
	if d := frameDiff(snap, &want); d != "" {
		c.Violation("C18/frame/expand-some-ellipses", fmt.Sprintf("%s; template %s counts %v", d, clipS(ref.PrintMsg(m)), counts), cs)
		return
	}
	if d := ref.EllipsisNamesOK(snap.Vars, true); d != "" {
		c.Violation("C18/frame/remaining-ellipsis-names", fmt.Sprintf("after expanding %s the remaining ellipses are named %q: %s; template %s", k, snap.Vars, d, clipS(ref.PrintMsg(m))), cs)
	}
}

func c18Eval(c *ctx, cs c18Case) {
	var cur *ast.DataMessage
	if o := real.Try(func() { cur = real.BuildMsg(cs.Msg) }); o.Panicked {
		c.Violation("C18/constructor-refused-valid", o.String(), cs)
		return
	}
	model := cs.Msg
	if d := frameDiff(real.Snap(cur), model); d != "" {
		c.Violation("C18/constructed-message-differs-from-model", d, cs)
		return
	}
	seq := ""
	changed := false
	for i, op := range cs.Ops {
		seq += op.Kind[:1]
		before := real.Snap(cur)
		nm, refused := modelApply(model, op)
		next, o := realApply(cur, op)
		c.Class("producer/" + op.Kind)
		// the receiver is never changed
		if d := before.Diff(real.Snap(cur)); d != "" {
			c.Violation("C18/receiver-changed/"+op.Kind, d, cs)
			return
		}
		if strings.HasPrefix(o.Text, "SetSessionIDAndSystemBytes wrote to the caller") {
			c.Violation("C18/producer-writes-to-the-callers-buffer", o.Text, cs)
			return
		}
		if refused != o.Panicked {
			c.Violation(fmt.Sprintf("C18/validity/%s/step%d", op.Kind, i), fmt.Sprintf("%s: model refused=%v, call %s; message %s", op.Kind, refused, o, clipS(ref.PrintMsg(model))), cs)
			return
		}
		if refused {
			c.Class("refused/" + op.Kind)
			changed = true
			continue // the message is unchanged; carry on with the sequence
		}
		if d := frameDiff(real.Snap(next), nm); d != "" {
			c.Violation(fmt.Sprintf("C18/frame/%s/after-%s", op.Kind, seq), fmt.Sprintf("after %s: %s; before: %s", op.Kind, d, clipS(ref.PrintMsg(model))), cs)
			return
		}
		if ref.PrintMsg(nm) != ref.PrintMsg(model) || nm.Session != model.Session || nm.Sys != model.Sys {
			changed = true
		}
		cur, model = next, nm
	}
	c.Class("sequence-length/" + fmt.Sprint(len(cs.Ops)))
	key := fmt.Sprint(ref.PrintMsg(cs.Msg), cs.Msg.Session, cs.Msg.Sys)
	for _, op := range cs.Ops {
		key += fmt.Sprint("|", op.Kind, op.B, op.Session, op.Sys, len(op.Sub), op.Bad)
	}
	c.Note(rng.HashStr(key), changed)
	if c.WantSample() && len(cs.Ops) == 3 && changed {
		c.Sample(map[string]interface{}{"message": ref.PrintMsg(cs.Msg), "producers": seq, "result": ref.PrintMsg(model), "session": model.Session})
	}
}

func genOp(g *gen.G, m *ref.Msg, kind string) prodOp {
	r := g.R
	switch kind {
	case "wait":
		return prodOp{Kind: "wait", B: r.Bool()}
	case "session":
		op := prodOp{Kind: "session"}
		switch r.Intn(6) {
		case 0:
			op.Session = r.PickInt([]int{-2, -1, 65536, 65535, 0, 1 << 20, -65536, 1 << 32, 1<<32 + 7, 1<<32 - 1, 1<<32 - 2, math.MaxInt64, math.MinInt64, -(1 << 32), 1<<48 + 258, 1 << 31, 1<<16 + 1<<32})
		default:
			op.Session = []int{0, 1, 65535, r.Intn(65536), r.Intn(65536), r.Intn(65536)}[r.Intn(6)]
		}
		op.Sys = r.Bytes(r.Intn(9))
		if m.Session >= 0 && r.Chance(1, 3) {
			// stamp again with the same session id and fewer bytes that are a prefix of the current ones
			// (a producer that compares before it copies must still pad with zeros)
			op.Session = m.Session
			op.Sys = append([]byte(nil), m.Sys[:r.Intn(4)]...)
		}
		return op
	}
	op := prodOp{Kind: "fill", Sub: map[string]ref.Val{}}
	if m.Item == nil {
		op.Sub["nosuch"] = valSlot(ref.U1, ref.Slot{Uint: 1})
		return op
	}
	// in-domain values for a random subset of the variables
	full := fullAssignment(g, m.Item)
	for k, v := range full {
		if r.Chance(2, 3) {
			op.Sub[k] = v
		}
	}
	if r.Chance(1, 4) {
		op.Sub["unknown_key"] = valSlot(ref.U1, ref.Slot{Uint: 1})
	}
	if r.Chance(1, 8) {
		vars := m.Item.Vars()
		var cand []string
		for _, v := range vars {
			if !ref.IsEllipsisName(v) {
				cand = append(cand, v)
			}
		}
		if len(cand) > 0 {
			op.Bad = cand[r.Intn(len(cand))]
			delete(op.Sub, op.Bad)
		}
	}
	return op
}

// fullAssignment gives every non-ellipsis variable of a model tree an in-domain model value.
func fullAssignment(g *gen.G, it *ref.Item) map[string]ref.Val {
	sub := map[string]ref.Val{}
	var walk func(x *ref.Item)
	walk = func(x *ref.Item) {
		if x.Var != "" {
			if ref.IsEllipsisName(x.Var) {
				return
			}
			k := ref.Kind(1 + g.R.Intn(int(ref.NKinds)-1))
			sv := g.P
			g.P.Vars, g.P.Boundary = false, false
			v := g.Scalar(k)
			g.P = sv
			sub[x.Var] = ref.Val{Item: v}
			return
		}
		switch x.Kind {
		case ref.L:
			for _, ch := range x.Children {
				walk(ch)
			}
		case ref.A:
			if x.AVar != "" {
				n := x.AMin
				if x.AMax == -1 {
					n += g.R.Intn(6)
				} else if x.AMax > x.AMin {
					n += g.R.Intn(spanCap(x.AMax-x.AMin) + 1)
				}
				sub[x.AVar] = ref.Val{Str: g.ASCII(n), IsS: true}
			}
		default:
			for _, s := range x.Slots {
				if s.Var != "" {
					sub[s.Var] = valSlot(x.Kind, g.Value(x.Kind))
				}
			}
		}
	}
	walk(it)
	return sub
}

func runC18(c *ctx) {
	c.Rule = "messages in every completeness state (wait bit false/true/optional x session set/unset x item with/without variables / no item) x every sequence of up to 3 producers (3+9+27 orders) with accepted and rejected arguments (W=true on an even function, session -2/65536, system bytes of length 0..8, a fill value no factory accepts, ASCII fills outside their bounds, unknown keys); after every producer every observable field is compared with a model that changes only the named field, the receiver is re-read, and refusal must coincide with the validity rules. non-trivial = the sequence changes something or is refused; distinct by (message, sequence) Also (rounds 6-8): ellipsis counts and generated names in one call through messages in every completeness state, then the same map object on a sibling; partial expansions must leave '...[0]','...[1]',..; fills that bring names in are refused or leave every name once; fills at the item size limit; fills at the bottom of nests 1..80, 200, 1000 deep. Also (round 10): half of the out-of-domain fill values are nil."
	c.Assume = []string{"model of the three producers in this file, written from the property statement"}
	kinds := []string{"wait", "session", "fill"}
	var seqs [][]string
	for _, a := range kinds {
		seqs = append(seqs, []string{a})
		for _, b := range kinds {
			seqs = append(seqs, []string{a, b})
			for _, d := range kinds {
				seqs = append(seqs, []string{a, b, d})
			}
		}
	}
	nmsg := c.pick(6000, 60000)
	c.parallel(nmsg, func(i int, r *rng.R) {
		g := gen.New(r, gen.Profile{MaxDepth: 1 + r.Intn(3), Vars: i%4 != 0, Budget: 150})
		var it *ref.Item
		if !r.Chance(1, 10) {
			it = g.Tree()
		}
		m := g.Msg(it, false)
		for _, sq := range seqs {
			cs := c18Case{Msg: m}
			cur := m
			for _, k := range sq {
				op := genOp(g, cur, k)
				cs.Ops = append(cs.Ops, op)
				if nm, refused := modelApply(cur, op); !refused {
					cur = nm
				}
			}
			c18Eval(c, cs)
		}
	})
	c.parallel(c.pick(20000, 200000), func(i int, r *rng.R) { c18Expand(c, i, r) })
	c.parallel(c.pick(6000, 60000), func(i int, r *rng.R) { c18Partial(c, i, r) })
	// fills whose values bring names into the tree: the result passes the rule a fresh message passes (every name once),
	// or the fill is refused
	{
		x := func() ast.ItemNode { return ast.NewUintNode(1, "q") }
		mk := func(it ast.ItemNode) *ast.DataMessage {
			return ast.NewDataMessage("t", 1, 1, 2, "H->E", it).SetSessionIDAndSystemBytes(9, []byte{1, 2, 3, 4})
		}
		cases := map[string]func() *ast.DataMessage{
			"same-item-into-two-list-variables": func() *ast.DataMessage {
				v := x()
				return mk(ast.NewListNode("v1", "v2")).FillVariables(map[string]interface{}{"v1": v, "v2": v})
			},
			"equal-items-into-two-list-variables": func() *ast.DataMessage {
				return mk(ast.NewListNode("v1", ast.NewListNode("v2"))).FillVariables(map[string]interface{}{"v1": x(), "v2": x()})
			},
			"rename-onto-a-name-in-another-child": func() *ast.DataMessage {
				return mk(ast.NewListNode(ast.NewIntNode(1, "a"), ast.NewListNode(ast.NewBinaryNode("b")))).FillVariables(map[string]interface{}{"a": "b"})
			},
			"item-bringing-a-name-the-list-holds": func() *ast.DataMessage {
				return mk(ast.NewListNode("lv", ast.NewListNode(ast.NewFloatNode(4, "q")))).FillVariables(map[string]interface{}{"lv": x()})
			},
			"list-variable-renamed-onto-a-slot-name": func() *ast.DataMessage {
				return mk(ast.NewListNode("lv", ast.NewUintNode(2, "w"))).FillVariables(map[string]interface{}{"lv": "w"})
			},
			"ascii-variable-item-brought-twice": func() *ast.DataMessage {
				a := ast.NewASCIINodeVariable("txt", 0, -1)
				return mk(ast.NewListNode("v1", ast.NewUintNode(1, 3), "v2")).FillVariables(map[string]interface{}{"v1": a, "v2": a})
			},
		}
		for name, f := range cases {
			var got *ast.DataMessage
			o := real.Try(func() { got = f() })
			c.NoteBulk(1, 1)
			c.Class("fill-results-pass-the-validity-rules")
			if o.Panicked {
				continue
			}
			seen := map[string]bool{}
			for _, v := range got.Variables() {
				if seen[v] {
					c.Violation("C18/validity/fill-result-holds-a-name-twice", fmt.Sprintf("%s: the fill returned a message with Variables() = %q (a freshly constructed message with these items is refused)", name, got.Variables()), c18Case{Ops: []prodOp{{Kind: name}}})
					break
				}
				seen[v] = true
			}
		}
	}
	// a fill at the item size limit and one byte beyond it: the result passes the rules of a fresh message (an ASCII item
	// holds at most 16,777,215 characters), and a message that is complete afterwards encodes completely
	for _, n := range []int{ref.MaxBytes, ref.MaxBytes + 1} {
		tplMsg := ast.NewDataMessage("big", 1, 1, 0, "H->E", ast.NewListNode(ast.NewASCIINodeVariable("txt", 0, -1), ast.NewUintNode(1, 9))).SetSessionIDAndSystemBytes(3, []byte{0, 0, 0, 3})
		var got *ast.DataMessage
		o := real.Try(func() { got = tplMsg.FillVariables(map[string]interface{}{"txt": strings.Repeat("q", n)}) })
		c.NoteBulk(1, 1)
		c.Class("fill-at-the-item-size-limit")
		switch {
		case n > ref.MaxBytes && !o.Panicked:
			c.Violation("C18/validity/fill-beyond-the-item-limit-accepted", fmt.Sprintf("a %d-character fill was accepted; ToBytes() has %d bytes, Variables()=%q", n, len(got.ToBytes()), got.Variables()), c18Case{Ops: []prodOp{{Kind: "fill-limit"}}})
		case n <= ref.MaxBytes && (o.Panicked || len(got.ToBytes()) != 14+2+4+n+3 || got.SessionID() != 3):
			c.Violation("C18/frame/fill-at-the-item-limit", fmt.Sprintf("a %d-character fill: %s", n, o), c18Case{Ops: []prodOp{{Kind: "fill-limit"}}})
		}
	}
	// variables at the bottom of deep nests are filled like any other (every depth 1..80, then 200 and 1000)
	for _, depth := range append(func() []int {
		var d []int
		for i := 1; i <= 80; i++ {
			d = append(d, i)
		}
		return d
	}(), 200, 1000) {
		var it ast.ItemNode = ast.NewListNode(ast.NewUintNode(2, "deep"), "slot", ast.NewASCIINodeVariable("txt", 0, 5))
		for i := 0; i < depth; i++ {
			it = ast.NewListNode(it)
		}
		msg := ast.NewDataMessage("deep", 1, 1, 0, "H->E", it).SetSessionIDAndSystemBytes(3, []byte{0, 0, 0, 3})
		var got *ast.DataMessage
		o := real.Try(func() {
			got = msg.FillVariables(map[string]interface{}{"deep": 513, "slot": ast.NewBinaryNode(7), "txt": "abc"})
		})
		c.NoteBulk(1, 1)
		c.Class("fill-at-the-bottom-of-a-deep-nest")
		want := 14 + 2*depth + 2 + 4 + 3 + 5
		if o.Panicked || len(got.Variables()) != 0 || len(got.ToBytes()) != want {
			nb, nv := -1, []string(nil)
			if got != nil {
				nb, nv = len(got.ToBytes()), got.Variables()
			}
			c.Violation("C18/frame/fill-at-the-bottom-of-a-deep-nest", fmt.Sprintf("%d lists around <L <U2 deep> slot <A txt>>: %s; ToBytes() has %d bytes (want %d), Variables()=%q", depth, o, nb, want, nv), c18Case{Ops: []prodOp{{Kind: "fill-deep"}}})
			break
		}
	}
	c.Required = []string{"fill-at-the-item-size-limit", "fill-at-the-bottom-of-a-deep-nest", "producer/expand-some-ellipses", "fill-results-pass-the-validity-rules", "producer/expand-and-fill-in-one-call", "producer/second-fill-from-the-same-map", "producer/wait", "producer/session", "producer/fill", "refused/wait", "refused/session", "refused/fill", "sequence-length/3"}
}

func replayC18(c *ctx, raw json.RawMessage) {
	var cs c18Case
	if json.Unmarshal(raw, &cs) == nil && cs.Msg != nil {
		c18Eval(c, cs)
	}
}
