package main

import (
	"bytes"
	"encoding/json"
	"fmt"
	"math"
	"sort"
	"strings"
	"sync"
	"time"

	"verifharness/internal/gen"
	"verifharness/internal/real"
	"verifharness/internal/ref"
	"verifharness/internal/rng"

	"github.com/wolimst/lib-secs2-hsms-go/pkg/ast"
)

// C09 — filling variables is pure substitution and composes.

type c09Case struct {
	Tpl     *ref.Item          `json:"template"`
	Sub     map[string]ref.Val `json:"sub"`             // in-domain values (subset of the variables)
	Unknown []string           `json:"unknown"`         // keys that name no variable
	Split   [][]string         `json:"split,omitempty"` // ordered partition of the keys of Sub
	Bad     map[string]string  `json:"bad,omitempty"`   // variable -> kind of out-of-domain raw value
	Msg     *ref.Msg           `json:"msg,omitempty"`   // header fields for the message-level check
}

func init() { register("C09", "exploration", runC09, replayC09) }

// badValue returns a raw Go value outside the domain of what the variable's position accepts.
func badValue(kind string) interface{} {
	switch kind {
	case "neg":
		return -1
	case "big":
		return uint64(1) << 40
	case "huge":
		return uint64(1<<64 - 1)
	case "float":
		return 1.5
	case "nan":
		var z float64
		return z / z
	case "str-nonascii":
		return "é"
	case "str-long":
		return "this string is longer than any of the small bounds used by the generator"
	case "int-for-ascii":
		return 7
	case "struct":
		return struct{}{}
	case "nil":
		return nil
	// round 11: the same few values in every Go type that can carry them (a fill and the factory must agree on each)
	case "neg-int8":
		return int8(-1)
	case "neg-int16":
		return int16(-1)
	case "neg-int32":
		return int32(-1)
	case "neg-int64":
		return int64(-1)
	case "min-int64":
		return int64(math.MinInt64)
	case "min-int32":
		return int32(math.MinInt32)
	case "max-uint32":
		return uint32(math.MaxUint32)
	case "max-uint16":
		return uint16(math.MaxUint16)
	case "max-uint":
		return uint(math.MaxUint64)
	case "uint-256":
		return uint(256)
	case "float32-inf":
		return float32(math.Inf(1))
	case "float32-neg-inf":
		return float32(math.Inf(-1))
	case "float32-nan":
		return float32(math.NaN())
	case "float32-1.5":
		return float32(1.5)
	case "float64-inf":
		return math.Inf(1)
	case "int8-127":
		return int8(127)
	case "uint8-255":
		return uint8(255)
	case "bool":
		return true
	case "f4-just-over":
		return 3.4028235e38 // MaxFloat32 as printed: slightly above MaxFloat32 as a float64
	case "f4-over":
		return 1e39
	case "f4-neg-over":
		return -3.5e38
	case "int-over-u4":
		return int64(1) << 32
	case "uint8-300":
		return 300
	// values of defined (named) types: the constructors know the predeclared types only
	case "named-uint32":
		return namedU32(7)
	case "named-float64":
		return namedF64(1.5)
	case "named-int":
		return namedInt(3)
	case "duration":
		return time.Duration(5)
	case "named-string":
		return namedStr("renamed")
	case "named-bool":
		return namedBool(true)
	case "pointer-to-int":
		v := 5
		return &v
	}
	return struct{ A int }{1}
}

type namedU32 uint32
type namedF64 float64
type namedInt int
type namedStr string
type namedBool bool

func c09Raw(cs c09Case, keys []string) map[string]interface{} {
	raw := map[string]interface{}{}
	for _, k := range keys {
		if v, ok := cs.Sub[k]; ok {
			if v.Slot != nil {
				// one of the Go types that can hold the value, chosen by the key (replayable)
				raw[k] = goValue(rng.New(rng.HashStr(k)), v.K, *v.Slot)
			} else {
				raw[k] = rawOf(v)
			}
		}
	}
	return raw
}

func c09Eval(c *ctx, cs c09Case) {
	var tpl ast.ItemNode
	if o := real.Try(func() { tpl = real.Build(cs.Tpl) }); o.Panicked {
		c.Violation("C09/template-refused", o.String()+" "+clipS(ref.Print(cs.Tpl)), cs)
		return
	}
	tplSnap := real.SnapItem(tpl)
	var keys []string
	for k := range cs.Sub {
		keys = append(keys, k)
	}
	sort.Strings(keys)
	raw := c09Raw(cs, keys)
	for _, u := range cs.Unknown {
		raw[u] = 12345
	}
	for v, kind := range cs.Bad {
		raw[v] = badValue(kind)
	}
	tvars := cs.Tpl.Vars()
	hits := 0
	for _, v := range tvars {
		if _, ok := raw[v]; ok {
			hits++
		}
	}
	c.Note(rng.HashStr(fmt.Sprint(ref.Print(cs.Tpl), keys, cs.Unknown, cs.Split, cs.Bad)), hits >= 1)

	// one-step fill versus direct construction with the values in place
	var filled, direct ast.ItemNode
	of := real.Try(func() { filled = tpl.FillVariables(raw) })
	od := real.Try(func() { direct = real.BuildSub(cs.Tpl, real.Sub(raw)) })
	if len(cs.Bad) > 0 {
		c.Class("out-of-domain-values")
	} else if len(keys) == len(tvars) && len(keys) > 0 {
		c.Class("total-assignment")
	} else if len(keys) == 0 {
		c.Class("empty-assignment")
	} else {
		c.Class("partial-assignment")
	}
	if of.Panicked != od.Panicked {
		c.Violation("C09/refusal-differs-from-constructor", fmt.Sprintf("FillVariables: %s; direct construction: %s; template %s bad=%v", of, od, clipS(ref.Print(cs.Tpl)), cs.Bad), cs)
		return
	}
	// a message around the template refuses what the template refuses, and accepts what it accepts
	{
		var om real.Outcome
		raw2 := map[string]interface{}{}
		for k, v := range raw {
			raw2[k] = v
		}
		om = real.Try(func() { ast.NewDataMessage("m", 1, 1, 0, "H->E", tpl).FillVariables(raw2) })
		if om.Panicked != of.Panicked {
			c.Violation("C09/message-refusal-differs-from-item", fmt.Sprintf("the item: %s; a message around it: %s; template %s bad=%v", of, om, clipS(ref.Print(cs.Tpl)), cs.Bad), cs)
			return
		}
	}
	// the template itself is untouched
	if d := tplSnap.Diff(real.SnapItem(tpl)); d != "" {
		c.Violation("C09/template-changed-by-fill", d, cs)
		return
	}
	if of.Panicked {
		c.Class("refused-by-both")
		return
	}
	fs, ds := real.SnapItem(filled), real.SnapItem(direct)
	// the same fill asked again gives the same answer
	if len(keys) >= 2 {
		for rep := 0; rep < 2; rep++ {
			var again ast.ItemNode
			if o := real.Try(func() { again = tpl.FillVariables(raw) }); o.Panicked || real.SnapItem(again).Diff(fs) != "" {
				c.Violation("C09/fill-not-deterministic", fmt.Sprintf("template %s: repeated fill differs (%s)", clipS(ref.Print(cs.Tpl)), o), cs)
				return
			}
		}
	}
	if d := fs.Diff(ds); d != "" {
		c.Violation("C09/fill-differs-from-direct-construction", d+" template="+clipS(ref.Print(cs.Tpl)), cs)
		return
	}
	// tie to the model (in-domain values only)
	if len(cs.Bad) == 0 {
		want, ok := ref.Fill(cs.Tpl, cs.Sub)
		if ok {
			if d := ref.MatchPrinted(fs.Str, ref.PrintSegs(want)); d != "" {
				c.Violation("C09/fill-differs-from-model", d, cs)
				return
			}
			if !real.EqStrs(fs.Vars, want.Vars()) {
				c.Violation("C09/remaining-variables-order", fmt.Sprintf("Variables()=%q model=%q", fs.Vars, want.Vars()), cs)
				return
			}
		}
	}
	// composition: the chain of fills equals the single fill
	if len(cs.Split) > 0 && len(cs.Bad) == 0 {
		c.Class(fmt.Sprintf("split-into-%d", len(cs.Split)))
		cur := tpl
		var o real.Outcome
		for _, part := range cs.Split {
			m := c09Raw(cs, part)
			if len(cs.Unknown) > 0 {
				m[cs.Unknown[0]] = "ignored"
			}
			o = real.Try(func() { cur = cur.FillVariables(m) })
			if o.Panicked {
				break
			}
		}
		if o.Panicked {
			c.Violation("C09/stepwise-fill-refused", o.String(), cs)
			return
		}
		if d := real.SnapItem(cur).Diff(fs); d != "" {
			c.Violation("C09/stepwise-fill-differs", fmt.Sprintf("split %v: %s", cs.Split, d), cs)
			return
		}
	}
	// message level: header fields kept, bytes equal to the directly built message
	if cs.Msg != nil && len(cs.Bad) == 0 {
		m := *cs.Msg
		m.Item = cs.Tpl
		var viaFill, viaDirect *ast.DataMessage
		o1 := real.Try(func() {
			tm := real.BuildMsg(&m)
			if len(keys)%2 == 0 {
				// the template is asked for everything before it is filled (a derived message must not inherit answers)
				_ = tm.ToBytes()
				_ = tm.Variables()
				_ = tm.String()
				c.Class("message-observed-before-fill")
			}
			viaFill = tm.FillVariables(raw)
			if len(keys) > 1 {
				// and in two steps with a probe in between
				half := map[string]interface{}{}
				for i, k := range keys {
					if i%2 == 0 {
						half[k] = raw[k]
					}
				}
				step := real.BuildMsg(&m).FillVariables(half)
				_ = step.ToBytes()
				_ = step.Variables()
				viaFill2 := step.FillVariables(raw)
				if d := real.Snap(viaFill2).Diff(real.Snap(viaFill)); d != "" {
					panic("two-step message fill differs: " + d)
				}
			}
		})
		o2 := real.Try(func() {
			viaDirect = real.BuildMsgWith(&m, direct)
		})
		if o1.Panicked || o2.Panicked {
			c.Violation("C09/message-fill-refused", fmt.Sprintf("%s / %s", o1, o2), cs)
			return
		}
		c.Class("message-level")
		if d := real.Snap(viaFill).Diff(real.Snap(viaDirect)); d != "" {
			c.Violation("C09/message-fill-differs-from-direct", d, cs)
			return
		}
		// round 10: two messages derived from ONE template object (stamped with different session ids and system bytes,
		// each then filled), looked at only after both exist, and a chain stamp -> fill -> encode -> stamp again whose
		// first result is re-read at the end: each equals the directly constructed message with its own fields
		if hits >= 1 {
			m1, m2 := m, m
			h := rng.HashStr(ref.Print(cs.Tpl))
			m1.Session, m2.Session = int(h%65536), int((h>>16)%65536)
			m1.Sys = [4]byte{byte(h >> 32), byte(h >> 40), byte(h >> 48), byte(h >> 56)}
			m2.Sys = [4]byte{^m1.Sys[3], ^m1.Sys[2], m1.Sys[1], m1.Sys[0] + 1}
			var a, b, a2 *ast.DataMessage
			var first []byte
			o := real.Try(func() {
				tm := real.BuildMsg(&m) // carries the session of m, or none
				sa := tm.SetSessionIDAndSystemBytes(m1.Session, m1.Sys[:])
				sb := tm.SetSessionIDAndSystemBytes(m2.Session, m2.Sys[:])
				a, b = sa.FillVariables(raw), sb.FillVariables(raw)
				first = a.ToBytes()
				a2 = a.SetSessionIDAndSystemBytes(m2.Session, m2.Sys[:]) // the chain goes on; a stays what it was
				_ = a2.ToBytes()
			})
			var da, db *ast.DataMessage
			o2 := real.Try(func() { da, db = real.BuildMsgWith(&m1, direct), real.BuildMsgWith(&m2, direct) })
			if o.Panicked || o2.Panicked {
				c.Violation("C09/message-fill-refused/siblings", fmt.Sprintf("%s / %s", o, o2), cs)
				return
			}
			c.Class("two-messages-stamped-from-one-template-then-filled")
			if d := real.Snap(a).Diff(real.Snap(da)); d != "" {
				c.Violation("C09/message-fill-differs-from-direct/first-of-two-siblings", d, cs)
			} else if d := real.Snap(b).Diff(real.Snap(db)); d != "" {
				c.Violation("C09/message-fill-differs-from-direct/second-of-two-siblings", d, cs)
			} else if d := real.Snap(a2).Diff(real.Snap(db)); d != "" {
				c.Violation("C09/message-fill-differs-from-direct/restamped-after-encoding", d, cs)
			} else if !bytes.Equal(first, a.ToBytes()) {
				c.Violation("C09/message-fill-differs-from-direct/first-encoding-changed-by-a-later-stamp", fmt.Sprintf("%x then %x", clipB(first), clipB(a.ToBytes())), cs)
			}
		}
	}
	if c.WantSample() && hits >= 2 && len(fs.Str) < 240 && len(cs.Split) > 1 {
		c.Sample(map[string]interface{}{"template": ref.Print(cs.Tpl), "keys": keys, "unknown": cs.Unknown, "split": cs.Split, "result": fs.Str})
	}
}

// partitions enumerates all ordered set partitions' representatives: every set
// partition of keys (blocks in first-element order) — used for <= 4 variables.
func setPartitions(keys []string) [][][]string {
	var out [][][]string
	var rec func(i int, blocks [][]string)
	rec = func(i int, blocks [][]string) {
		if i == len(keys) {
			cp := make([][]string, len(blocks))
			for j := range blocks {
				cp[j] = append([]string(nil), blocks[j]...)
			}
			out = append(out, cp)
			return
		}
		for j := range blocks {
			blocks[j] = append(blocks[j], keys[i])
			rec(i+1, blocks)
			blocks[j] = blocks[j][:len(blocks[j])-1]
		}
		rec(i+1, append(blocks, []string{keys[i]}))
	}
	rec(0, nil)
	return out
}

// nearMissKey derives a key that differs from a variable name in a way a
// normalising lookup would forgive: zero-padded or re-spelled index, an added
// or dropped index, letter case, surrounding blanks, a dropped last character.
func nearMissKey(r *rng.R, name string) string {
	base, idx := name, ""
	if i := strings.Index(name, "["); i >= 0 {
		base, idx = name[:i], name[i:]
	}
	var alts []string
	if idx != "" {
		alts = append(alts, base+strings.Replace(idx, "[", "[0", 1), base+strings.Replace(idx, "[", "[00", -1), base+strings.Replace(idx, "]", " ]", 1), base+strings.Replace(idx, "[", "[+", 1), base, name+"[0]")
	} else {
		alts = append(alts, name+"[0]", name+"[00]", name+"[]")
	}
	alts = append(alts, name+" ", " "+name, name+"\x00", name+"_", "_"+name, name+"\n")
	if u := strings.ToUpper(name); u != name {
		alts = append(alts, u)
	}
	if l := strings.ToLower(name); l != name {
		alts = append(alts, l)
	}
	if len(base) > 1 {
		alts = append(alts, base[:len(base)-1]+idx)
	}
	return alts[r.Intn(len(alts))]
}

func runC09(c *ctx) {
	c.Rule = "ellipsis-free templates over all node kinds (nesting <= 6, variables in scalar slots, list variables, ASCII variables with bounds) x assignments (total, partial, empty, with unknown keys, values of every accepted Go type) : FillVariables must equal direct construction with the values in place (String, Variables, Size, ToBytes), equal the model substitution, leave remaining variables in order, refuse exactly when the constructor refuses (out-of-domain values of 12 kinds), compose over every set partition of <= 4 keys (random ordered splits beyond), and keep the message header while filling. non-trivial = at least one key names a variable of the template; distinct by (template, keys, split, bad values) Also (rounds 4-8): near-miss unknown keys; a string fill value renames (21 names incl. T, F, type names); named-type and pointer values; every fill repeated through a message (refusal must agree); one shared 64-slot template per kind filled by eight goroutines with their own values. Also (round 9): text values that spell the name of the variable they fill or of another variable. Also (round 10): two messages stamped from one template object and then filled are compared with direct construction after both exist; a stamped, filled and encoded message is stamped again and its first encoding re-read."
	c.Assume = []string{"fill-in values are variable-free (as the property quantifies)", "direct construction = the repository's own factories called with the values in place"}
	badKinds := []string{"neg", "big", "huge", "float", "nan", "str-nonascii", "str-long", "int-for-ascii", "struct", "nil", "bool", "f4-just-over", "f4-over", "f4-neg-over", "int-over-u4", "uint8-300", "named-uint32", "named-float64", "named-int", "duration", "named-string", "named-bool", "pointer-to-int", "neg-int8", "neg-int16", "neg-int32", "neg-int64", "min-int64", "min-int32", "max-uint32", "max-uint16", "max-uint", "uint-256", "float32-inf", "float32-neg-inf", "float32-nan", "float32-1.5", "float64-inf", "int8-127", "uint8-255"}
	n := c.pick(50000, 500000)
	c.parallel(n, func(i int, r *rng.R) {
		g := gen.New(r, gen.Profile{MaxDepth: 1 + r.Intn(6), Vars: true, Budget: 300, MaxKids: 4, MaxElems: 5})
		tpl := g.Tree()
		full := fullAssignment(g, tpl)
		// values rendered in varied Go types happen in rawOf via SlotValue; add type variety here
		cs := c09Case{Tpl: tpl, Sub: map[string]ref.Val{}}
		mode := r.Intn(5)
		for k, v := range full {
			switch mode {
			case 0: // total
				cs.Sub[k] = v
			case 1: // empty
			default:
				if r.Bool() {
					cs.Sub[k] = v
				}
			}
		}
		for j := r.Intn(4); j > 0; j-- {
			cs.Unknown = append(cs.Unknown, []string{"nosuch", "zz9", "...", "...[7]", "x[99]", "", "1bad", "L"}[r.Intn(8)])
		}
		if vars := tpl.Vars(); len(vars) > 0 && r.Chance(1, 3) {
			// a key that is nearly the name of a variable (names are compared verbatim: v[1] and v[01] are two names)
			cs.Unknown = append(cs.Unknown, nearMissKey(r, vars[r.Intn(len(vars))]))
			c.Class("near-miss-unknown-key")
		}
		if _, clash := full["nosuch"]; clash {
			cs.Unknown = nil
		}
		for _, u := range cs.Unknown {
			if _, clash := full[u]; clash {
				cs.Unknown = nil
				break
			}
		}
		if i%4 == 0 {
			m := g.Msg(nil, false)
			cs.Msg = m
		}
		var keys []string
		for k := range cs.Sub {
			keys = append(keys, k)
		}
		sort.Strings(keys)
		if i%11 == 7 && tpl.Kind == ref.L && len(tpl.Children) >= 1 {
			// the template keeps an ellipsis that is not filled (C09 does not expand ellipses), named as a parser or a
			// caller may have named it; a key that looks like an ellipsis but names none of the template's is ignored
			ename := []string{"...[0]", "...[2]", "...", "...[13]"}[r.Intn(4)]
			t2 := tpl.Clone()
			t2.Children = append(t2.Children, &ref.Item{Var: ename})
			cs.Tpl = t2
			var keep []string
			for _, u := range cs.Unknown {
				if u != ename {
					keep = append(keep, u)
				}
			}
			cs.Unknown = keep
			for _, u := range []string{"...", "...[0]", "...[7]", "...[2]"} {
				if u != ename {
					cs.Unknown = append(cs.Unknown, u)
					break
				}
			}
			cs.Msg = nil
			c.Class("unfilled-ellipsis-and-unknown-ellipsis-key")
			c09Eval(c, cs)
			return
		}
		if i%9 == 5 {
			// a fill-in item that brings its own variable is inserted as is: a key naming that inner variable names no
			// variable of the template and is ignored (single-step law only; composition is not quantified over these)
			n := 0
			for k, v := range cs.Sub {
				if v.Item != nil {
					inner := fmt.Sprintf("zzInner%d", n)
					n++
					cs.Sub[k] = ref.Val{Item: &ref.Item{Kind: ref.U1, Slots: []ref.Slot{{Var: inner}, {Uint: 3}}}}
					cs.Unknown = append(cs.Unknown, inner)
				}
			}
			if n > 0 {
				c.Class("fill-in-item-with-its-own-variable")
				cs.Msg = nil
				c09Eval(c, cs)
				return
			}
		}
		switch {
		case i%7 == 3 && len(full) > 0:
			// out-of-domain values
			vars := tpl.Vars()
			cs.Bad = map[string]string{}
			for j := 1 + r.Intn(2); j > 0; j-- {
				v := vars[r.Intn(len(vars))]
				delete(cs.Sub, v)
				cs.Bad[v] = badKinds[r.Intn(len(badKinds))]
			}
			c09Eval(c, cs)
		case len(keys) >= 1 && len(keys) <= 4:
			for _, part := range setPartitions(keys) {
				// blocks in a random order
				p := r.Perm(len(part))
				sp := make([][]string, len(part))
				for a, b := range p {
					sp[a] = part[b]
				}
				cc := cs
				cc.Split = sp
				c09Eval(c, cc)
			}
		case len(keys) > 4:
			for rep := 0; rep < 5; rep++ {
				k := 2 + r.Intn(4)
				sp := make([][]string, k)
				for _, key := range keys {
					j := r.Intn(k)
					sp[j] = append(sp[j], key)
				}
				cc := cs
				cc.Split = sp
				c09Eval(c, cc)
			}
		default:
			c09Eval(c, cs)
		}
	})
	// a fill value that is a string names a variable (the constructors read every string as a name): filling a with "b"
	// gives what the constructor gives with b in a's place - whatever b spells (T, F, type names, inf, numbers in disguise)
	newNames := []string{"b", "T", "F", "t", "f", "L", "A", "U1", "F4", "BOOLEAN", "inf", "NaN", "TRUE", "false", "x1", "e5", "_", "b[0]", "b[07]", "O7", "W"}
	c.parallel(c.pick(6000, 60000), func(i int, r *rng.R) {
		g := gen.New(r, gen.Profile{MaxDepth: r.Intn(3), Vars: true, Budget: 100, MaxKids: 3, MaxElems: 4})
		tpl := g.Tree()
		vars := tpl.Vars()
		if len(vars) == 0 {
			return
		}
		old := vars[r.Intn(len(vars))]
		nn := newNames[r.Intn(len(newNames))]
		// the model: the same template with the name replaced (slot variables and list variables; an ASCII variable
		// takes a string as its value, not as a name)
		isASCII := false
		var ren func(x *ref.Item) *ref.Item
		ren = func(x *ref.Item) *ref.Item {
			y := x.Clone()
			if y.Var == old {
				y.Var = nn
			}
			if y.Kind == ref.A && y.AVar == old {
				isASCII = true
			}
			for k := range y.Slots {
				if y.Slots[k].Var == old {
					y.Slots[k].Var = nn
				}
			}
			for k, ch := range y.Children {
				y.Children[k] = ren(ch)
			}
			return y
		}
		want := ren(tpl)
		if isASCII {
			// an ASCII variable takes a string as its VALUE - also when the text happens to spell its own name, the name of
			// another variable of the template, or a keyword
			if r.Chance(1, 2) {
				nn = old
			} else if r.Chance(1, 2) {
				nn = vars[r.Intn(len(vars))]
			}
			fits := false
			var chk func(x *ref.Item)
			chk = func(x *ref.Item) {
				if x.Kind == ref.A && x.AVar == old {
					fits = len(nn) >= x.AMin && (x.AMax == -1 || len(nn) <= x.AMax)
				}
				for _, ch := range x.Children {
					chk(ch)
				}
			}
			chk(tpl)
			if fits {
				c.Class("text-value-that-spells-a-name")
				c09Eval(c, c09Case{Tpl: tpl, Sub: map[string]ref.Val{old: {Str: []byte(nn), IsS: true}}})
			}
			return
		}
		var node, filled, direct ast.ItemNode
		if o := real.Try(func() { node = real.Build(tpl) }); o.Panicked {
			return
		}
		of := real.Try(func() { filled = node.FillVariables(map[string]interface{}{old: nn}) })
		od := real.Try(func() { direct = real.Build(want) })
		c.Note(rng.HashStr(ref.Print(tpl)+old+nn), true)
		c.Class("rename-by-string-value")
		cs := c09Case{Tpl: tpl, Sub: map[string]ref.Val{old: {Str: []byte(nn), IsS: true}}}
		if of.Panicked != od.Panicked {
			c.Violation("C09/rename/refusal-differs-from-constructor", fmt.Sprintf("FillVariables(%q: %q): %s; the constructor with %q in place: %s; template %s", old, nn, of, nn, od, clipS(ref.Print(tpl))), cs)
			return
		}
		if of.Panicked {
			c.Class("rename-refused-by-both")
			return
		}
		if d := real.SnapItem(filled).Diff(real.SnapItem(direct)); d != "" {
			c.Violation("C09/rename/differs-from-direct-construction", fmt.Sprintf("FillVariables(%q: %q) vs the constructor with %q in place: %s; template %s", old, nn, nn, d, clipS(ref.Print(tpl))), cs)
		}
	})
	// substitution is substitution whoever else is filling the same template at that moment: one shared template per
	// kind (64 slots, every eighth a variable, alone and inside a list and a message), eight goroutines with their own
	// values, every result compared with the model of ITS values
	for _, k := range []ref.Kind{ref.F4, ref.F8, ref.I2, ref.U4, ref.B, ref.BOOLEAN} {
		tplM := &ref.Item{Kind: k, Slots: make([]ref.Slot, 64)}
		var names []string
		for i := 0; i < 64; i += 8 {
			n := fmt.Sprintf("s%d", i)
			tplM.Slots[i].Var = n
			names = append(names, n)
		}
		listM := &ref.Item{Kind: ref.L, Children: []*ref.Item{{Kind: ref.U1, Slots: []ref.Slot{{Uint: 1}}}, tplM}}
		var tpl, lst ast.ItemNode
		var msg *ast.DataMessage
		if o := real.Try(func() {
			tpl = real.Build(tplM)
			lst = real.Build(listM)
			msg = ast.NewDataMessage("shared", 1, 1, 0, "H->E", lst).SetSessionIDAndSystemBytes(1, []byte{0, 0, 0, 1})
		}); o.Panicked {
			continue
		}
		var wg sync.WaitGroup
		bad := make([]string, 8)
		for g := 0; g < 8; g++ {
			wg.Add(1)
			go func(g int) {
				defer wg.Done()
				gr := rng.New(uint64(1000*int(k) + g))
				gg := gen.New(gr, gen.Profile{})
				for rep := 0; rep < c.pick(300, 3000) && bad[g] == ""; rep++ {
					sub := map[string]ref.Val{}
					raw := map[string]interface{}{}
					for _, n := range names {
						v := valSlot(k, gg.Value(k))
						sub[n] = v
						raw[n] = rawOf(v)
					}
					wantItem, _ := ref.Fill(tplM, sub)
					wantList, _ := ref.Fill(listM, sub)
					var b1, b2, b3 []byte
					o := real.Try(func() {
						b1 = tpl.FillVariables(raw).ToBytes()
						b2 = lst.FillVariables(raw).ToBytes()
						b3 = msg.FillVariables(raw).ToBytes()
					})
					switch {
					case o.Panicked:
						bad[g] = o.String()
					case !bytes.Equal(b1, ref.Encode(wantItem)):
						bad[g] = fmt.Sprintf("item: %x want %x", clipB(b1), clipB(ref.Encode(wantItem)))
					case !bytes.Equal(b2, ref.Encode(wantList)):
						bad[g] = fmt.Sprintf("list: %x want %x", clipB(b2), clipB(ref.Encode(wantList)))
					case len(b3) < 14 || !bytes.Equal(b3[14:], ref.Encode(wantList)):
						bad[g] = fmt.Sprintf("message: %x want body %x", clipB(b3), clipB(ref.Encode(wantList)))
					}
				}
			}(g)
		}
		wg.Wait()
		c.NoteBulk(8, 8)
		c.Class("shared-template-filled-by-several-goroutines")
		for g, b := range bad {
			if b != "" {
				c.Violation("C09/fill-differs-from-model-while-others-fill-the-same-template/"+k.String(), fmt.Sprintf("goroutine %d of 8 filling one shared %s[64] template with its own values: %s", g, k, b), c09Case{Tpl: tplM})
				break
			}
		}
	}
	c.Required = []string{"two-messages-stamped-from-one-template-then-filled", "shared-template-filled-by-several-goroutines", "rename-by-string-value", "text-value-that-spells-a-name", "total-assignment", "partial-assignment", "empty-assignment", "out-of-domain-values", "refused-by-both", "split-into-2", "split-into-3", "message-level", "message-observed-before-fill", "fill-in-item-with-its-own-variable", "unfilled-ellipsis-and-unknown-ellipsis-key", "near-miss-unknown-key"}
}

func replayC09(c *ctx, raw json.RawMessage) {
	var cs c09Case
	if json.Unmarshal(raw, &cs) == nil && cs.Tpl != nil {
		c09Eval(c, cs)
	}
}
