package main

import (
	"bytes"
	"encoding/hex"
	"encoding/json"
	"fmt"
	"os"
	"path/filepath"
	"runtime"
	"sync"
	"time"

	"verifharness/internal/gen"
	"verifharness/internal/iso"
	"verifharness/internal/ref"
	"verifharness/internal/rng"
)

// C07 — the HSMS decoder is total and its memory use is linear in the input.
// Inputs run in child worker processes (address-space limit, watchdog); the
// worker measures runtime.MemStats.TotalAlloc around every call.

type c07Case struct {
	Family string `json:"family"`
	Len    int    `json:"len"`
	Hex    string `json:"hex,omitempty"`    // inputs up to 4 KiB are stored verbatim
	Recipe string `json:"recipe,omitempty"` // larger ones by construction recipe
}

func init() { register("C07", "fault_enumeration", runC07, replayC07) }

func c07CaseOf(j iso.Job) c07Case {
	cs := c07Case{Family: j.Family, Len: len(j.Input), Recipe: j.Meta}
	if len(j.Input) <= 4096 {
		cs.Hex = hex.EncodeToString(j.Input)
	}
	return cs
}

func msgHeader() []byte {
	return []byte{0, 0, 0, 0, 0x00, 0x01, 0x01, 0x01, 0, 0, 0, 0, 0, 1}
}

func wrapMsg(body []byte) []byte {
	return ref.PatchLen(append(msgHeader(), body...))
}

// c07Recipe rebuilds a large input from its recipe string (for replay).
func c07Recipe(recipe string) []byte {
	var kind string
	var a, b int
	fmt.Sscanf(recipe, "%s %d %d", &kind, &a, &b)
	switch kind {
	case "chain": // a nested one-element lists, closed by an empty list when b=1
		body := bytes.Repeat([]byte{0x01, 0x01}, a)
		if b == 1 {
			body = append(body, 0x01, 0x00)
		}
		return wrapMsg(body)
	case "item": // format code a, b payload bytes of 0x01 (3 length bytes)
		body := append([]byte{byte(a)<<2 | 3, byte(b >> 16), byte(b >> 8), byte(b)}, bytes.Repeat([]byte{0x01}, b)...)
		return wrapMsg(body)
	case "pitem": // format code a, payload of (b>>3) bytes drawn from pattern b&7 (3 length bytes)
		n, pat := b>>3, b&7
		pay := make([]byte, n)
		x := uint32(12345)
		for i := range pay {
			switch pat {
			case 0:
				pay[i] = 0x00
			case 1:
				pay[i] = 0x7F
			case 2:
				pay[i] = 0x80
			case 3:
				pay[i] = 0xFF
			case 4:
				pay[i] = []byte{0x41, 0xC1}[i&1]
			case 5:
				x = x*1664525 + 1013904223
				pay[i] = byte(x >> 24)
			case 6:
				pay[i] = []byte{'"', '\\', '\n', 0xE2, 0x80, 0xA8, 0x1B, 'a'}[i&7]
			default:
				if i >= n/2 {
					pay[i] = 0x9C
				} else {
					pay[i] = 'a'
				}
			}
		}
		body := append([]byte{byte(a)<<2 | 3, byte(n >> 16), byte(n >> 8), byte(n)}, pay...)
		return wrapMsg(body)
	case "texts": // a list of a distinct ASCII items of 6 characters, in ascending (b=0), descending (b=1) or shuffled (b=2) order
		body := []byte{0x03, byte(a >> 16), byte(a >> 8), byte(a)}
		for i := 0; i < a; i++ {
			v := i
			switch b {
			case 1:
				v = a - 1 - i
			case 2:
				v = int((uint64(i)*2654435761 + 12345) % uint64(a)) // a fixed scramble (collisions only make some texts equal)
			}
			body = append(body, 0x41, 0x06)
			body = append(body, []byte(fmt.Sprintf("%06d", v))...)
		}
		return wrapMsg(body)
	case "prefixed": // an outer list holding a complete list of a one-byte items, then (b>>1) nested list headers that each
		// declare a elements (b&1 = 0) or as many as the bytes behind them allow (b&1 = 1), then 2a filler bytes
		depth, greedy := b>>1, b&1 == 1
		body := []byte{0x01, 0x02}
		body = append(body, 0x03, byte(a>>16), byte(a>>8), byte(a))
		body = append(body, bytes.Repeat([]byte{0xA5, 0x01, 0x07}, a)...)
		tail := 2 * a
		for i := 0; i < depth; i++ {
			n := a
			if greedy {
				n = (tail + 4*(depth-1-i)) / 2
				if n > 1<<24-1 {
					n = 1<<24 - 1
				}
			}
			body = append(body, 0x03, byte(n>>16), byte(n>>8), byte(n))
		}
		body = append(body, bytes.Repeat([]byte{0x01, 0x00}, a)...)
		return wrapMsg(body)
	case "greedy": // a nested list headers with b length bytes, each declaring as many children as the guard "2 bytes per child" lets through
		total := a * (1 + b)
		var body []byte
		for i := 0; i < a; i++ {
			remaining := total - len(body) - (1 + b)
			n := remaining / 2
			if max := 1<<(8*uint(b)) - 1; n > max {
				n = max
			}
			body = append(body, ref.HeaderN(ref.L, n, b)...)
		}
		return wrapMsg(body)
	case "leafchain": // a levels of <L[2] leaf <L[2] leaf ...>> with a one-element leaf of format code b at every level
		w := 1
		switch b {
		case 0o32, 0o52:
			w = 2
		case 0o34, 0o54, 0o44:
			w = 4
		case 0o30, 0o50, 0o40:
			w = 8
		}
		leaf := append([]byte{byte(b)<<2 | 1, byte(w)}, bytes.Repeat([]byte{0x41}, w)...)
		if b == 0o44 || b == 0o40 {
			leaf[2] = 0x3F
		}
		var body []byte
		for i := 0; i < a; i++ {
			body = append(body, 0x01, 0x02)
			body = append(body, leaf...)
		}
		body = append(body, 0x01, 0x00)
		return wrapMsg(body)
	case "shortbottom": // a nested one-element lists around a list that declares b+1 elements; b four-byte elements are
		// present and the text ends exactly where the last one would start (the count passes any bytes-per-element guard)
		body := bytes.Repeat([]byte{0x01, 0x01}, a)
		body = append(body, 0x01, byte(b+1))
		body = append(body, bytes.Repeat([]byte{0x21, 0x02, 0x07, 0x07}, b)...)
		return wrapMsg(body)
	case "shortlevels": // a levels of <L[2] <B 7 7> <L[2] ...>>; the innermost declares two elements and holds only the first
		var body []byte
		for i := 0; i < a; i++ {
			body = append(body, 0x01, 0x02, 0x21, 0x02, 0x07, 0x07)
		}
		return wrapMsg(body)
	case "bigleaf": // a nested one-element lists around one binary/U4 item of b payload bytes
		body := bytes.Repeat([]byte{0x01, 0x01}, a)
		body = append(body, 0o54<<2|2, byte(b>>8), byte(b))
		body = append(body, bytes.Repeat([]byte{0x01}, b)...)
		return wrapMsg(body)
	case "smallitems": // a list of a one-element items of format code b
		w := 1
		switch b {
		case 0o32, 0o52:
			w = 2
		case 0o34, 0o54, 0o44:
			w = 4
		case 0o30, 0o50, 0o40:
			w = 8
		}
		one := append([]byte{byte(b)<<2 | 1, byte(w)}, bytes.Repeat([]byte{0x41}, w)...)
		if b == 0o44 || b == 0o40 {
			one[2] = 0x3F // keep floats finite
		}
		body := append([]byte{0x03, byte(a >> 16), byte(a >> 8), byte(a)}, bytes.Repeat(one, a)...)
		return wrapMsg(body)
	case "emptylist": // list of a empty lists
		body := append([]byte{0x03, byte(a >> 16), byte(a >> 8), byte(a)}, bytes.Repeat([]byte{0x01, 0x00}, a)...)
		return wrapMsg(body)
	}
	return nil
}

func c07Jobs(c *ctx) (small []iso.Job, large []iso.Job) {
	add := func(fam string, b []byte) { small = append(small, iso.Job{Input: b, Family: fam}) }
	declared := []int{0, 1, 255, 256, 65535, 65536, 1<<24 - 1}
	outer := []int{0, 1, 255, 65535, 1<<24 - 1}
	depths := []int{0, 1, 2, 7, 64}
	// (a) declared length vs bytes present, at depth, inside lists that themselves over-declare
	for k := ref.L; k < ref.NKinds; k++ {
		for nl := 1; nl <= 3; nl++ {
			for _, d := range declared {
				if d >= 1<<(8*uint(nl)) {
					continue
				}
				for _, present := range []int{0, 1, d - 1, d} {
					if present < 0 || present > d {
						continue
					}
					if present > 70000 {
						continue // real large items are family (b)
					}
					for _, depth := range depths {
						for _, oc := range outer {
							if oc == 0 && depth > 0 {
								continue
							}
							if depth == 0 && oc != 0 {
								continue
							}
							var body []byte
							for i := 0; i < depth; i++ {
								body = append(body, ref.HeaderN(ref.L, oc, 3)...)
							}
							body = append(body, ref.HeaderN(k, d, nl)...)
							if k == ref.L {
								for i := 0; i < present && i < 3000; i++ {
									body = append(body, 0x01, 0x00)
								}
							} else {
								body = append(body, bytes.Repeat([]byte{0x01}, present)...)
							}
							add("declared-vs-present", wrapMsg(body))
						}
					}
				}
			}
		}
	}
	// every proper prefix of whole frames, the 4-byte length left as it was (a short read): control frames, header-only
	// and small data messages
	{
		frames := [][]byte{
			{0, 0, 0, 10, 0xFF, 0xFF, 0, 0, 0, 5, 0, 0, 0, 1}, // linktest.req
			{0, 0, 0, 10, 0, 1, 0, 0, 0, 1, 9, 9, 9, 9},       // select.req
			{0, 0, 0, 10, 0, 1, 0, 3, 0, 2, 9, 9, 9, 9},       // select.rsp
			{0, 0, 0, 10, 0, 1, 5, 2, 0, 7, 9, 9, 9, 9},       // reject.req
			{0, 0, 0, 10, 0, 1, 0x81, 1, 0, 0, 0, 0, 0, 1},    // S1F1 W, no item
			wrapMsg([]byte{0x01, 0x02, 0xA5, 0x01, 0x07, 0x41, 0x03, 'a', 'b', 'c'}),
			wrapMsg([]byte{0x91, 0x04, 0x3F, 0x80, 0x00, 0x00}),
		}
		for _, f := range frames {
			for n := 0; n < len(f); n++ {
				add("short-read-of-a-whole-frame", append([]byte(nil), f[:n]...))
			}
		}
	}
	// frames decoded at the same moment by several goroutines of one worker (accepted data and control messages of every
	// kind, refused ones): a decoder that counts, caches or scratches in package-level state shows itself or aborts
	for b := 0; b < c.pick(30, 300); b++ {
		var batch []byte
		for k := 0; k < 8; k++ {
			var f []byte
			switch (b + k) % 4 {
			case 0:
				f = []byte{0, 0, 0, 10, byte(b), byte(k), 0, 0, 0, byte(1 + (b+k)%9), 1, 2, 3, byte(k)}
			case 1:
				body := []byte{0x01, 0x03, 0xA5, 0x02, byte(b), byte(k), 0x21, 0x00}
				body = append(body, 0x21, 0xFF)
				body = append(body, bytes.Repeat([]byte{byte(k)}, 255)...)
				f = wrapMsg(body)
			case 2:
				f = wrapMsg(append([]byte{0x41, 0x10}, []byte(fmt.Sprintf("text-%04d-%04d..", b, k))[:16]...))
			default:
				f = wrapMsg([]byte{0x01, 0x02, 0xA5, 0x01}) // refused: truncated
			}
			batch = append(batch, f...)
		}
		small = append(small, iso.Job{Input: batch, Family: "concurrent-batch"})
	}
	// (c) chains
	for _, depth := range []int{10, 100, 1000, 5000, c.pick(10000, 20000)} {
		small = append(small, iso.Job{Input: c07Recipe(fmt.Sprintf("chain %d 1", depth)), Family: "closed-chain", Meta: fmt.Sprintf("chain %d 1", depth)})
		small = append(small, iso.Job{Input: c07Recipe(fmt.Sprintf("chain %d 0", depth)), Family: "unclosed-chain", Meta: fmt.Sprintf("chain %d 0", depth)})
	}
	large = append(large, iso.Job{Input: c07Recipe("chain 1000000 0"), Family: "unclosed-chain", Meta: "chain 1000000 0"})
	// nests that carry a leaf item at every level (every enclosing list looks at the whole subtree again)
	for _, code := range []int{0o20, 0o10, 0o11, 0o31, 0o52, 0o54, 0o40} {
		for _, depth := range []int{500, c.pick(3000, 6000)} {
			r := fmt.Sprintf("leafchain %d %d", depth, code)
			small = append(small, iso.Job{Input: c07Recipe(r), Family: "nest-with-leaf-per-level", Meta: r})
		}
	}
	// a list at the bottom of a deep nest whose last declared element is missing, the text ending exactly on an element
	// boundary (refused or not, the work stays linear)
	for _, depth := range []int{250, 1000, 4000, c.pick(10000, 20000)} {
		for _, present := range []int{1, 2, 60} {
			r := fmt.Sprintf("shortbottom %d %d", depth, present)
			small = append(small, iso.Job{Input: c07Recipe(r), Family: "nest-whose-bottom-list-lacks-its-last-element", Meta: r})
		}
		r := fmt.Sprintf("shortlevels %d 0", depth)
		small = append(small, iso.Job{Input: c07Recipe(r), Family: "nest-whose-bottom-list-lacks-its-last-element", Meta: r})
	}
	// one large array item at the bottom of a deep nest
	for _, dp := range [][2]int{{500, 1000}, {1000, 2000}, {c.pick(2000, 4000), 4000}, {3000, 60000}} {
		r := fmt.Sprintf("bigleaf %d %d", dp[0], dp[1])
		small = append(small, iso.Job{Input: c07Recipe(r), Family: "nest-around-a-large-item", Meta: r})
	}
	// nested lists that each declare the largest child count the bytes present could still hold
	for _, nl := range []int{1, 2, 3} {
		for _, depth := range []int{8, 64, 512, 4096, c.pick(16384, 65536)} {
			r := fmt.Sprintf("greedy %d %d", depth, nl)
			small = append(small, iso.Job{Input: c07Recipe(r), Family: "greedy-nested-lists", Meta: r})
		}
	}
	// a hostile tail behind a legitimate large prefix in the same message (what the decoder learnt from the prefix must not
	// size what it allocates for the tail)
	for _, n := range []int{1000, 10000, c.pick(30000, 120000)} {
		for _, depth := range []int{100, 1000, c.pick(2000, 8000)} {
			for g := 0; g < 2; g++ {
				r := fmt.Sprintf("prefixed %d %d", n, depth<<1|g)
				j := iso.Job{Input: c07Recipe(r), Family: "legit-prefix-then-hostile-tail", Meta: r}
				if len(j.Input) > 32<<10 {
					large = append(large, j)
				} else {
					small = append(small, j)
				}
			}
		}
	}
	// many different small items in one message, in ascending, descending and shuffled order (bookkeeping per distinct
	// value must not depend on the order of arrival)
	for _, n := range []int{2000, c.pick(8000, 60000)} {
		for order := 0; order < 3; order++ {
			r := fmt.Sprintf("texts %d %d", n, order)
			large = append(large, iso.Job{Input: c07Recipe(r), Family: "many-distinct-texts", Meta: r})
		}
	}
	// (b) long legitimate items
	sizes := []int{65536, 1 << 20}
	if c.thorough {
		sizes = append(sizes, 1<<24-1)
	}
	for _, code := range []int{0o20, 0o10, 0o31, 0o11, 0o51, 0o32, 0o54, 0o40} {
		for _, n := range sizes {
			w := 1
			switch code {
			case 0o32:
				w = 2
			case 0o54:
				w = 4
			case 0o40:
				w = 8
			}
			n = n / w * w
			r := fmt.Sprintf("item %d %d", code, n)
			large = append(large, iso.Job{Input: c07Recipe(r), Family: "long-item", Meta: r})
		}
	}
	// long items of every format whose payload is not the friendly 0x01: all-zero, 0x7F, 0x80, 0xFF, alternating 7-bit/8-bit,
	// pseudo-random, quote/backslash/line-break/UTF-8 runs, 8-bit second half (per-byte work on refusals, escapes, conversions)
	psizes := []int{4096, 65536}
	if c.thorough {
		psizes = append(psizes, 1<<20)
	}
	for _, code := range []int{0o10, 0o11, 0o20, 0o31, 0o51, 0o32, 0o52, 0o34, 0o54, 0o30, 0o50, 0o44, 0o40} {
		for _, n := range psizes {
			for pat := 0; pat < 8; pat++ {
				r := fmt.Sprintf("pitem %d %d", code, n<<3|pat)
				j := iso.Job{Input: c07Recipe(r), Family: "long-item-payload-patterns", Meta: r}
				if n > 32<<10 {
					large = append(large, j)
				} else {
					small = append(small, j)
				}
			}
		}
	}
	// wide lists of many small items of every format (per-item costs that grow with what follows the item)
	for _, code := range []int{0o20, 0o10, 0o11, 0o31, 0o51, 0o32, 0o52, 0o34, 0o54, 0o30, 0o50, 0o44, 0o40} {
		r := fmt.Sprintf("smallitems %d %d", c.pick(20000, 200000), code)
		large = append(large, iso.Job{Input: c07Recipe(r), Family: "many-small-items", Meta: r})
	}
	for _, n := range []int{65536, c.pick(200000, 1000000)} {
		r := fmt.Sprintf("emptylist %d 0", n)
		large = append(large, iso.Job{Input: c07Recipe(r), Family: "wide-list", Meta: r})
	}
	return
}

func runC07(c *ctx) {
	c.Rule = "inputs run in child worker processes (ulimit -v 4 GiB, watchdog); oracle: no panic escapes hsms.Parse, the worker does not abort, the decoder's item-step counter (hook H3) stays within len(input)+2, TotalAlloc delta <= 1 MiB + 2048*len(input). Families: every format x 1/2/3 length bytes x declared length {0,1,255,256,65535,65536,2^24-1} x bytes present {0,1,declared-1,declared} at list depth {0,1,2,7,64} inside over-declaring lists; long legitimate items; long items of every format with hostile payload patterns (0x00, 0x7F, 0x80, 0xFF, alternating 7/8-bit, pseudo-random, quote/backslash/line-break/UTF-8 runs, 8-bit second half); lists of many small items of every format; generated legitimate trees up to ~1 MB; nested lists each declaring the largest count the remaining bytes allow; closed/unclosed one-element list chains; every single-point fault of seed encodings (the C03 enumerator); random bytes behind a correct length prefix; seven 1 KiB messages (refused after part was decoded, and accepted) each repeated thousands of times in one worker process (per-call allocation must not depend on history); a complete list of n items followed in the same message by chains of over-declaring list headers (hostile tail behind a legitimate prefix); the deep-chain probe. non-trivial = input declares a length larger than the bytes that follow, or is >= 4 KiB; distinct by hash Also (rounds 4-8): payload patterns in long items; seven 1 KiB messages repeated thousands of times and 150000/600000 pairwise different tiny messages in one worker; a hostile tail behind a legitimate prefix; 2000..60000 different texts in ascending/descending/shuffled order; every proper prefix of whole frames with the length left alone; eight frames decoded at the same moment by eight goroutines; hook H4; retained heap over the batch. Also (round 9): nests of depth 250..20000 whose bottom list lacks exactly its last declared element."
	c.Assume = []string{"runtime.MemStats.TotalAlloc measures the memory allocated during one call in a single-goroutine worker", "the bound's constants (1 MiB + 2048 B/byte) are ~4x the most expensive legitimate construct measured on this tree"}

	small, large := c07Jobs(c)
	// (d) C03 fault cases
	var mu sync.Mutex
	c.parallel(c.pick(60, 1200), func(i int, r *rng.R) {
		g := gen.New(r, gen.Profile{MaxDepth: 1 + r.Intn(3), MaxKids: 3, MaxElems: 3, Budget: 60})
		m := g.Msg(g.Tree(), true)
		b, roles := ref.EncodeRoles(m, func(k ref.Kind, length, min int) int { return min + r.Intn(4-min) })
		if len(b) > 160 {
			return
		}
		var local []iso.Job
		faultList(b, roles, func(x []byte, fault string) {
			local = append(local, iso.Job{Input: append([]byte(nil), x...), Family: "single-point-fault"})
		})
		mu.Lock()
		small = append(small, local...)
		mu.Unlock()
	})
	// legitimate complex trees, small to ~1 MB (the bound must hold for ordinary traffic of every shape)
	c.parallel(c.pick(300, 3000), func(i int, r *rng.R) {
		p := gen.Profile{MaxDepth: 1 + r.Intn(6), Boundary: true, Budget: 2000 << uint(r.Intn(9)), MaxKids: 2 + r.Intn(8), MaxElems: 1 + r.Intn(12)}
		g := gen.New(r, p)
		m := g.Msg(g.Tree(), true)
		b := ref.EncodeMessage(m)
		fam := "generated-tree"
		mu.Lock()
		if len(b) > 32<<10 {
			large = append(large, iso.Job{Input: b, Family: fam})
		} else {
			small = append(small, iso.Job{Input: b, Family: fam})
		}
		mu.Unlock()
	})
	// (e) random bytes with a correct length prefix, and item soups with huge declared lengths
	r := c.rnd.Derive(7)
	for i := 0; i < c.pick(60000, 1500000); i++ {
		var body []byte
		if i%2 == 0 {
			body = r.Bytes(r.Intn(48))
		} else {
			for j := r.Intn(5); j >= 0; j-- {
				k := ref.Kind(r.Intn(int(ref.NKinds)))
				nl := 1 + r.Intn(3)
				ln := []int{0, 1, 2, 255, 256, 65535, 65536, 1<<24 - 1, r.Intn(1 << 24)}[r.Intn(9)]
				if ln >= 1<<(8*uint(nl)) {
					ln &= 1<<(8*uint(nl)) - 1
				}
				body = append(body, ref.HeaderN(k, ln, nl)...)
				body = append(body, r.Bytes(r.Intn(6))...)
			}
		}
		small = append(small, iso.Job{Input: wrapMsg(body), Family: "random"})
	}

	// distinct / non-trivial accounting (parent side, from the job list)
	for _, j := range append(append([]iso.Job{}, small...), large...) {
		nontrivial := len(j.Input) >= 4096 || j.Family == "declared-vs-present" || j.Family == "unclosed-chain" || j.Family == "greedy-nested-lists" || j.Family == "nest-around-a-large-item" || j.Family == "nest-with-leaf-per-level" || j.Family == "legit-prefix-then-hostile-tail"
		if !nontrivial {
			if _, ok := ref.Decode(j.Input); !ok {
				nontrivial = true
			}
		}
		c.Note(rng.Hash64(j.Input), nontrivial)
	}
	c.Eval(-int64(len(small) + len(large))) // evaluations are counted when the workers report them

	exe, _ := os.Executable()
	work := filepath.Join(c.Root, "work", fmt.Sprintf("C07.%d", os.Getpid()))
	os.RemoveAll(work)
	os.MkdirAll(work, 0o755)
	defer os.RemoveAll(work)

	nw := runtime.NumCPU() - 2
	if nw < 2 {
		nw = 2
	}
	// shuffle small jobs deterministically so that slow families spread over the workers
	perm := c.rnd.Derive(11).Perm(len(small))
	slots := make([][]iso.Job, nw)
	for i, p := range perm {
		slots[i%nw] = append(slots[i%nw], small[p])
	}
	var wg sync.WaitGroup
	outs := make([]iso.Outcome, nw+2)
	jobsOf := make([][]iso.Job, nw+2)
	for s := 0; s < nw; s++ {
		wg.Add(1)
		jobsOf[s] = slots[s]
		go func(s int) {
			defer wg.Done()
			outs[s] = iso.Run(iso.Options{Exe: exe, Kind: "hsms", Dir: filepath.Join(work, fmt.Sprintf("w%d", s)), VMemKB: 4 << 20, Watchdog: 20 * time.Minute, MaxRestart: 20}, slots[s])
		}(s)
	}
	// large items one at a time in their own slot
	wg.Add(1)
	jobsOf[nw] = large
	go func() {
		defer wg.Done()
		outs[nw] = iso.Run(iso.Options{Exe: exe, Kind: "hsms", Dir: filepath.Join(work, "large"), VMemKB: 6 << 20, Watchdog: 30 * time.Minute, MaxRestart: 20}, large)
	}()
	// the deep-chain probe (finding K2): 8 M nested one-element lists, 16 MB
	probe := []iso.Job{{Input: c07Recipe("chain 8000000 0"), Family: "deep-chain-probe", Meta: "chain 8000000 0"}}
	wg.Add(1)
	jobsOf[nw+1] = probe
	go func() {
		defer wg.Done()
		outs[nw+1] = iso.Run(iso.Options{Exe: exe, Kind: "hsms", Dir: filepath.Join(work, "probe"), VMemKB: 6 << 20, Watchdog: 30 * time.Minute, MaxRestart: 1}, probe)
	}()
	// the same few inputs again and again in one worker process: what one call allocates must not depend on what earlier
	// calls left behind (pooled parsers, scratch stacks, caches) - same per-call bound, the workload supplies the history
	var history []iso.Job
	// a long run of pairwise different tiny messages first (a table that grows with everything ever decoded shows in the
	// one call that makes it grow, and in what stays reachable at the end)
	for i := 0; i < c.pick(150000, 600000); i++ {
		var body []byte
		switch i % 3 {
		case 0:
			body = []byte{0xB1, 0x04, byte(i >> 24), byte(i >> 16), byte(i >> 8), byte(i)}
		case 1:
			body = append([]byte{0x41, 0x07}, []byte(fmt.Sprintf("%07d", i))...)
		default:
			body = []byte{0x01, 0x02, 0xA9, 0x02, byte(i >> 8), byte(i), 0x21, 0x02, byte(i >> 16), byte(i >> 8)}
		}
		history = append(history, iso.Job{Input: wrapMsg(body), Family: "distinct-small-messages-in-one-process", Meta: "distinct"})
	}
	for _, in := range c07HistoryInputs() {
		for k := 0; k < c.pick(2500, 12000); k++ {
			history = append(history, iso.Job{Input: in, Family: "repeat-in-one-process", Meta: "repeat"})
		}
	}
	wg.Add(1)
	outs = append(outs, iso.Outcome{})
	jobsOf = append(jobsOf, history)
	go func() {
		defer wg.Done()
		outs[nw+2] = iso.Run(iso.Options{Exe: exe, Kind: "hsms", Dir: filepath.Join(work, "history"), VMemKB: 4 << 20, Watchdog: 20 * time.Minute, MaxRestart: 3}, history)
	}()
	wg.Wait()

	for s, o := range outs {
		c.Eval(int64(o.Processed))
		for k, v := range o.Summary.Classes {
			c.ClassN(k, v)
		}
		for k, v := range o.Summary.Maxima {
			c.Max(k, v)
		}
		for _, f := range o.Findings {
			j := jobsOf[s][f.Index]
			c.Violation(f.Sig, f.What, c07CaseOf(j))
		}
		for _, a := range o.Aborts {
			j := jobsOf[s][a.Index]
			c.Class("worker-abort/" + a.Kind)
			if a.Kind == "watchdog" {
				c.Inconclusive(fmt.Sprintf("watchdog expired on a %d-byte %s input (%s)", len(j.Input), j.Family, j.Meta))
				continue
			}
			c.Violation("C07/abort/"+a.Kind+"/"+j.Family, fmt.Sprintf("worker process aborted (%s) while decoding a %d-byte input: %s", a.Kind, len(j.Input), firstLines(a.Stderr, 3)), c07CaseOf(j))
		}
		for _, m := range o.Incon {
			c.Inconclusive(m)
		}
	}
	if c.WantSample() {
		for i := 0; i < 6 && i < len(small); i++ {
			j := small[perm[i*997%len(perm)]]
			c.Sample(map[string]interface{}{"family": j.Family, "len": len(j.Input), "input": hex.EncodeToString(clipB(j.Input))})
		}
	}
	c.Required = []string{"hook-H3-reached", "family/nest-whose-bottom-list-lacks-its-last-element", "family/declared-vs-present", "family/single-point-fault", "family/long-item", "family/long-item-payload-patterns", "family/many-small-items", "family/generated-tree", "family/closed-chain", "family/nest-with-leaf-per-level", "family/nest-around-a-large-item", "family/greedy-nested-lists", "family/random", "family/repeat-in-one-process", "family/short-read-of-a-whole-frame", "family/concurrent-batch", "family/distinct-small-messages-in-one-process", "family/many-distinct-texts", "family/legit-prefix-then-hostile-tail", "accepted", "rejected"}
}

// c07HistoryInputs: messages that are refused after part of their content was decoded (in a list, in a nested list,
// at the very end), and accepted ones, about 1 KiB each.
func c07HistoryInputs() [][]byte {
	var out [][]byte
	u1 := []byte{0xA5, 0x01, 0x07}
	many := func(n int) []byte { return bytes.Repeat(u1, n) }
	// a list of 250 items whose last item is cut short
	out = append(out, wrapMsg(append(append([]byte{0x01, 251}, many(250)...), 0xA5, 0x05, 0x01)))
	// a list that declares 255 items and holds 250
	out = append(out, wrapMsg(append([]byte{0x01, 255}, many(250)...)))
	// nested: list of 20 lists of 12 items, the last inner list ends in an 8-bit ASCII item
	{
		body := []byte{0x01, 20}
		for i := 0; i < 20; i++ {
			body = append(body, 0x01, 13)
			body = append(body, many(12)...)
			if i == 19 {
				body = append(body, 0x41, 0x02, 'a', 0xE9)
			} else {
				body = append(body, 0x41, 0x02, 'a', 'b')
			}
		}
		out = append(out, wrapMsg(body))
	}
	// a complete list followed by one stray byte (message length says so)
	out = append(out, wrapMsg(append(append([]byte{0x01, 250}, many(250)...), 0x00)))
	// non-finite float at the end of a list
	out = append(out, wrapMsg(append(append([]byte{0x01, 251}, many(250)...), 0x91, 0x04, 0x7F, 0x80, 0x00, 0x00)))
	// accepted: the same list, complete
	out = append(out, wrapMsg(append([]byte{0x01, 250}, many(250)...)))
	// accepted: one ASCII item of 1000 characters
	out = append(out, wrapMsg(append([]byte{0x42, 0x03, 0xE8}, bytes.Repeat([]byte("x"), 1000)...)))
	return out
}

func firstLines(s string, n int) string {
	out := ""
	for i, l := range bytes.SplitN([]byte(s), []byte("\n"), n+1) {
		if i >= n {
			break
		}
		out += string(l) + " | "
	}
	return out
}

func replayC07(c *ctx, raw json.RawMessage) {
	var cs c07Case
	if json.Unmarshal(raw, &cs) != nil {
		return
	}
	var in []byte
	if cs.Hex != "" {
		in, _ = hex.DecodeString(cs.Hex)
	} else {
		in = c07Recipe(cs.Recipe)
	}
	if in == nil {
		fmt.Println("replay: no input")
		return
	}
	exe, _ := os.Executable()
	work, _ := os.MkdirTemp("", "c07replay")
	defer os.RemoveAll(work)
	jobs := []iso.Job{{Input: in, Family: cs.Family, Meta: cs.Recipe}}
	if cs.Family == "repeat-in-one-process" {
		for k := 0; k < 12000; k++ {
			jobs = append(jobs, jobs[0])
		}
	}
	o := iso.Run(iso.Options{Exe: exe, Kind: "hsms", Dir: work, VMemKB: 6 << 20, Watchdog: 30 * time.Minute, MaxRestart: 1}, jobs)
	for _, f := range o.Findings {
		c.Violation(f.Sig, f.What, cs)
	}
	for _, a := range o.Aborts {
		c.Violation("C07/abort/"+a.Kind+"/"+cs.Family, "worker aborted: "+firstLines(a.Stderr, 3), cs)
	}
}
