package main

import (
	"encoding/json"
	"fmt"
	"strings"
	"sync"
	"sync/atomic"

	"verifharness/internal/gen"
	"verifharness/internal/real"
	"verifharness/internal/ref"
	"verifharness/internal/rng"

	"github.com/wolimst/lib-secs2-hsms-go/pkg/ast"
)

// C16 — the variable listing matches the printed order; encodable iff no
// variables; Size() is the number of elements printed.

type c16Case struct {
	Source string         `json:"source"` // direct | expanded | partial | message | parsed
	Item   *ref.Item      `json:"item,omitempty"`
	Counts map[string]int `json:"counts,omitempty"`
	Msg    *ref.Msg       `json:"msg,omitempty"`
	Text   string         `json:"text,omitempty"`
}

func firstDiff(a, b []string) int {
	for i := range a {
		if i >= len(b) || a[i] != b[i] {
			return i
		}
	}
	return len(a)
}

func init() { register("C16", "exploration", runC16, replayC16) }

// c16Observers checks the three observers of one item against each other.
// It returns the scanned printed form (nil when scanning failed).
func c16Observers(c *ctx, cs c16Case, str string, vars []string, bytesLen int, size int, isItem bool) {
	pn, err := ref.ScanPrinted(str)
	if err != nil {
		c.Violation("C16/printed-form-unreadable/"+cs.Source, fmt.Sprintf("cannot scan %q: %v", clipS(str), err), cs)
		return
	}
	// every name once
	seen := map[string]bool{}
	for _, v := range vars {
		if seen[v] {
			c.Violation("C16/duplicate-name/"+cs.Source, fmt.Sprintf("Variables()=%q lists %q twice", vars, v), cs)
			return
		}
		seen[v] = true
	}
	// same sequence as the printed tokens (ellipses are printed as "...": compared by position)
	pv := ref.NormEllipsis(pn.Vars)
	lv := ref.NormEllipsis(vars)
	if !real.EqStrs(pv, lv) {
		c.Violation("C16/listing-vs-printed-order/"+cs.Source, fmt.Sprintf("Variables()=%q but the printed form names %q: %s", vars, pn.Vars, clipS(str)), cs)
		return
	}
	if (bytesLen > 0) != (len(vars) == 0) && isItem {
		c.Violation("C16/encodable-iff-no-variables/"+cs.Source, fmt.Sprintf("len(ToBytes())=%d with Variables()=%q: %s", bytesLen, vars, clipS(str)), cs)
		return
	}
	if isItem {
		want := pn.Elems
		if pn.Type == "A" && pn.VarOnly {
			want = -1
		}
		if size != want {
			c.Violation("C16/size-vs-printed-elements/"+cs.Source, fmt.Sprintf("Size()=%d, printed elements=%d: %s", size, want, clipS(str)), cs)
			return
		}
	}
	if d := pn.CheckDeclared(); d != "" {
		c.Violation("C16/printed-size-vs-elements/"+cs.Source, d+": "+clipS(str), cs)
	}
}

func varNodes(it *ref.Item) int {
	// number of distinct nodes that hold at least one variable
	n := 0
	var walk func(x *ref.Item)
	walk = func(x *ref.Item) {
		own := false
		if x.Kind == ref.L && x.Var == "" {
			for _, ch := range x.Children {
				if ch.Var != "" {
					own = true
				} else {
					walk(ch)
				}
			}
		} else if x.Kind == ref.A {
			own = x.AVar != ""
		} else {
			for _, s := range x.Slots {
				if s.Var != "" {
					own = true
				}
			}
		}
		if own {
			n++
		}
	}
	walk(it)
	return n
}

func c16Item(c *ctx, cs c16Case, node ast.ItemNode, model *ref.Item) {
	s := real.SnapItem(node)
	// the observers are functions of the object: asked again they answer the same (map iteration order must not show)
	for rep := 0; rep < 2; rep++ {
		if d := s.Diff(real.SnapItem(node)); d != "" {
			c.Violation("C16/observer-not-deterministic/"+cs.Source, d, cs)
			return
		}
	}
	nt := len(s.Vars) >= 2 && (model == nil || varNodes(model) >= 2)
	c.Note(rng.Mix(rng.HashStr(s.Str), rng.HashStr(cs.Source)), nt)
	c.Class("object/" + cs.Source)
	if len(s.Vars) == 0 {
		c.Class("variable-free")
	} else {
		c.Class("with-variables")
	}
	c16Observers(c, cs, s.Str, s.Vars, len(s.Bytes), s.Size, true)
	if model != nil {
		// tie to the model: same names in the same order, same size
		if !real.EqStrs(ref.NormEllipsis(s.Vars), ref.NormEllipsis(model.Vars())) {
			c.Violation("C16/listing-vs-model/"+cs.Source, fmt.Sprintf("Variables()=%q model=%q", s.Vars, model.Vars()), cs)
		}
		if s.Size != model.Size() {
			c.Violation("C16/size-vs-model/"+cs.Source, fmt.Sprintf("Size()=%d model=%d", s.Size, model.Size()), cs)
		}
	}
	if c.WantSample() && len(s.Vars) >= 3 && len(s.Str) < 300 {
		c.Sample(map[string]interface{}{"source": cs.Source, "printed": s.Str, "Variables": s.Vars, "Size": s.Size, "encoded_len": len(s.Bytes)})
	}
}

func c16Msg(c *ctx, cs c16Case, m *ast.DataMessage) {
	s := real.Snap(m)
	c.Note(rng.Mix(rng.HashStr(s.Str), 5), len(s.Vars) >= 2)
	c.Class("object/" + cs.Source)
	body := itemPart(s.Str)
	if body != "" {
		c16Observers(c, cs, body, s.Vars, len(s.Bytes), 0, false)
	} else if len(s.Vars) != 0 {
		c.Violation("C16/message-without-item-has-variables", fmt.Sprintf("%q", s.Vars), cs)
	}
	complete := len(s.Vars) == 0 && s.WaitBit != "optional" && s.Session != -1
	if (len(s.Bytes) > 0) != complete {
		c.Violation("C16/message-encodable-iff-complete/"+cs.Source, fmt.Sprintf("len(ToBytes())=%d, Variables()=%q, wait=%s, session=%d", len(s.Bytes), s.Vars, s.WaitBit, s.Session), cs)
	}
}

func c16Eval(c *ctx, cs c16Case) {
	switch cs.Source {
	case "direct":
		var node ast.ItemNode
		if o := real.Try(func() { node = real.Build(cs.Item) }); o.Panicked {
			c.Violation("C16/constructor-refused-valid", o.String()+" "+clipS(ref.Print(cs.Item)), cs)
			return
		}
		c16Item(c, cs, node, cs.Item)
	case "expanded":
		var node ast.ItemNode
		cm := map[string]interface{}{}
		for k, v := range cs.Counts {
			cm[k] = v
		}
		if o := real.Try(func() { node = real.Build(cs.Item).FillVariables(cm) }); o.Panicked {
			c.Class("expansion-refused(skipped; C10)")
			return
		}
		c16Item(c, cs, node, ref.Expand(cs.Item, cs.Counts))
	case "message":
		var m *ast.DataMessage
		if o := real.Try(func() { m = real.BuildMsg(cs.Msg) }); o.Panicked {
			c.Violation("C16/message-refused-valid", o.String(), cs)
			return
		}
		c16Msg(c, cs, m)
	case "rename":
		// a fill whose value is a name renames the variable; an item filled into a list variable brings its own names.
		// Whatever is accepted must still list every name once, in printed order.
		var node ast.ItemNode
		if o := real.Try(func() { node = real.Build(cs.Item) }); o.Panicked {
			return
		}
		vars := node.Variables()
		r := rng.New(rng.HashStr(ref.Print(cs.Item)))
		for step := 0; step < 4 && len(vars) >= 2; step++ {
			a, b := vars[r.Intn(len(vars))], vars[r.Intn(len(vars))]
			if ref.IsEllipsisName(a) || ref.IsEllipsisName(b) {
				continue
			}
			var val interface{} = b // rename a to b (collides unless a == b)
			if r.Chance(1, 3) {
				val = ast.NewUintNode(1, b) // an item bringing the name b (accepted only where a is a list variable)
			} else if r.Chance(1, 3) {
				val = b + "_fresh"
			}
			var next ast.ItemNode
			if o := real.Try(func() { next = node.FillVariables(map[string]interface{}{a: val}) }); o.Panicked {
				c.Class("rename-refused")
				continue
			}
			c.Class("rename-accepted")
			c16Item(c, cs, next, nil)
			node, vars = next, next.Variables()
		}
	case "derived":
		// observe, derive, observe again: the observers of a derived message must agree with each other
		// whatever was asked of the message it was derived from
		var m *ast.DataMessage
		if o := real.Try(func() { m = real.BuildMsg(cs.Msg) }); o.Panicked {
			c.Violation("C16/message-refused-valid", o.String(), cs)
			return
		}
		c16Msg(c, cs, m)
		r := rng.New(rng.HashStr(ref.PrintMsg(cs.Msg)))
		g := gen.New(r, gen.Profile{})
		for step := 0; step < 3; step++ {
			var next *ast.DataMessage
			o := real.Try(func() {
				switch r.Intn(3) {
				case 0:
					sub := map[string]interface{}{}
					if cs.Msg.Item != nil {
						for k, v := range fullAssignment(g, cs.Msg.Item) {
							if r.Bool() {
								sub[k] = rawOf(v)
							}
						}
					}
					next = m.FillVariables(sub)
				case 1:
					next = m.SetWaitBit(false)
				default:
					next = m.SetSessionIDAndSystemBytes(r.Intn(65536), r.Bytes(4))
				}
			})
			if o.Panicked || next == nil {
				continue
			}
			c16Msg(c, cs, next)
			c16Msg(c, cs, m) // and the original still agrees with itself
			m = next
		}
	case "parsed":
		msgs, errs, _, o := smlParse(cs.Text)
		if o.Panicked || len(errs) > 0 {
			c.Class("parsed-source-rejected(skipped)")
			return
		}
		for _, m := range msgs {
			c16Msg(c, cs, m)
		}
	}
}

func runC16(c *ctx) {
	c.Rule = "three observers of the same object must agree: Variables() equals the sequence of variable tokens read from String() by the harness's own scanner (ellipses by position), no name twice, len(ToBytes())>0 iff Variables() is empty (messages: and wait bit decided and session set), Size() equals the number of printed elements (-1 for an unfilled ASCII variable), every printed [n] equals the elements printed inside. Objects: generated trees with variables at every position and ellipses, results of ellipsis expansion, messages in all completeness states, messages derived by the producers from messages that were already observed, parser-produced messages. non-trivial = at least 2 variables in at least 2 different nodes; distinct by printed form Also (rounds 4-8): nodes with exactly n variables for n to 1000; lists of 20 MB that encode completely; first listings of fresh objects asked by eight goroutines behind a spin barrier. Also (round 10): variables of seven kinds under 60-300 lists with names beside the nest, as item and as message, the deep name duplicated at the top; the same refusal (first and last name equal) asked for 12,000 times with fresh names."
	c.Assume = []string{"variable base names avoid the words T and F (a variable called T in a BOOLEAN item prints like the value T)", "the scanner in internal/ref/scan.go reads the printed form"}
	n := c.pick(200000, 1500000)
	c.parallel(n, func(i int, r *rng.R) {
		p := gen.Profile{MaxDepth: 1 + r.Intn(5), Vars: i%5 != 0, Ellipsis: i%3 == 0, Budget: 400, MaxKids: 5, MaxElems: 6}
		g := gen.New(r, p)
		it := g.Tree()
		switch i % 4 {
		case 0, 1:
			c16Eval(c, c16Case{Source: "direct", Item: it})
		case 2:
			if it.Kind == ref.L {
				counts := map[string]int{}
				for _, v := range it.Vars() {
					if ref.IsEllipsisName(v) && r.Chance(2, 3) {
						counts[v] = r.Intn(4)
					}
				}
				if len(counts) > 0 {
					c16Eval(c, c16Case{Source: "expanded", Item: it, Counts: counts})
					return
				}
			}
			c16Eval(c, c16Case{Source: "direct", Item: it})
		case 3:
			var item *ref.Item = it
			if r.Chance(1, 12) {
				item = nil
			}
			m := g.Msg(item, false)
			if i%8 == 3 {
				c16Eval(c, c16Case{Source: "message", Msg: m})
			} else if i%8 == 7 && len(it.Vars()) > 0 && !p.Ellipsis {
				c16Eval(c, c16Case{Source: "derived", Msg: m})
				c16Eval(c, c16Case{Source: "rename", Item: it})
			} else {
				m.Session = -1
				c16Eval(c, c16Case{Source: "parsed", Text: ref.PrintMsg(m)})
			}
		}
	})
	// variables at positions beyond 65536 inside one wide item, on both sides of a multiple of 65536
	for _, k := range []ref.Kind{ref.U1, ref.I2, ref.F4, ref.B, ref.BOOLEAN} {
		n := 65536 + 6 + int(k)
		it := &ref.Item{Kind: k, Slots: make([]ref.Slot, n)}
		for _, pos := range []int{10, 65535, 65536, n - 1, 3} {
			it.Slots[pos].Var = fmt.Sprintf("p%d", pos)
		}
		c.Class("wide-item-with-variables")
		c16Eval(c, c16Case{Source: "direct", Item: it})
		c16Eval(c, c16Case{Source: "direct", Item: &ref.Item{Kind: ref.L, Children: []*ref.Item{it, {Var: "after"}}}})
	}
	// items and lists with exactly n variables, n up to 1000, names in no particular order, literals interleaved
	// (the listing must keep printed order however many names one item holds)
	{
		r := c.rnd.Derive(16)
		ns := []int{64, 65, 100, 255, 256, 257, 1000}
		for n := 1; n <= 40; n++ {
			ns = append(ns, n)
		}
		kinds := []ref.Kind{ref.L, ref.U1, ref.U2, ref.U4, ref.U8, ref.I1, ref.I2, ref.I4, ref.I8, ref.F4, ref.F8, ref.B, ref.BOOLEAN}
		for _, n := range ns {
			for _, k := range kinds {
				if n > 40 && r.Chance(1, 2) {
					continue
				}
				names := make([]string, n)
				for i := range names {
					names[i] = fmt.Sprintf("%c%x", 'a'+rune(r.Intn(26)), r.U64()&0xffffff) + fmt.Sprint(i)
				}
				gap := r.Intn(3) // literals between variables
				var it *ref.Item
				if k == ref.L {
					it = &ref.Item{Kind: ref.L}
					for i := 0; i < n; i++ {
						for j := 0; j < gap; j++ {
							it.Children = append(it.Children, &ref.Item{Kind: ref.U1, Slots: []ref.Slot{{Uint: uint64(j)}}})
						}
						it.Children = append(it.Children, &ref.Item{Var: names[i]})
					}
				} else {
					it = &ref.Item{Kind: k}
					for i := 0; i < n; i++ {
						for j := 0; j < gap; j++ {
							it.Slots = append(it.Slots, ref.Slot{})
						}
						it.Slots = append(it.Slots, ref.Slot{Var: names[i]})
					}
				}
				c.Class("n-variables-in-one-node")
				c16Eval(c, c16Case{Source: "direct", Item: it})
				c16Eval(c, c16Case{Source: "direct", Item: &ref.Item{Kind: ref.L, Children: []*ref.Item{{Var: "before"}, it, {Var: "after"}}}})
				if n <= 100 {
					m := gen.New(r, gen.Profile{}).Msg(it, false)
					m.Session = -1
					c16Eval(c, c16Case{Source: "parsed", Text: ref.PrintMsg(m)})
					c16Eval(c, c16Case{Source: "message", Msg: m})
				}
			}
		}
	}
	// variable-free lists whose encoding is far longer than any single item can be: no variables, so they encode (the
	// 16,777,215 limit binds each length field, not the bytes of a list's children together)
	{
		big := ast.NewASCIINode(strings.Repeat("x", 4000000))
		flat := ast.NewListNode(big, big, big, big, big)
		nested := ast.NewListNode(ast.NewListNode(big, big), ast.NewUintNode(1, 7), ast.NewListNode(big, big), ast.NewListNode(big, big, ast.NewListNode(big)))
		for name, l := range map[string]ast.ItemNode{"flat": flat, "nested": nested} {
			wantLen := map[string]int{"flat": 2 + 5*4000004, "nested": 2 + (2 + 2*4000004) + 3 + (2 + 2*4000004) + (2 + 2*4000004 + 2 + 4000004)}[name]
			var b []byte
			var vars []string
			o := real.Try(func() { vars = l.Variables(); b = l.ToBytes() })
			c.NoteBulk(1, 1)
			c.Class("list-longer-than-any-item")
			if o.Panicked || len(vars) != 0 || len(b) != wantLen {
				c.Violation("C16/encodable-iff-no-variables/list-longer-than-any-item", fmt.Sprintf("%s list of 4,000,000-character items: Variables()=%q, ToBytes() has %d bytes, want %d (%s)", name, vars, len(b), wantLen, o), c16Case{Source: "biglist"})
			}
			var mb []byte
			real.Try(func() {
				mb = ast.NewDataMessage("", 1, 1, 0, "H->E", l).SetSessionIDAndSystemBytes(1, []byte{0, 0, 0, 1}).ToBytes()
			})
			if len(mb) != 14+wantLen {
				c.Violation("C16/message-encodable-iff-complete/list-longer-than-any-item", fmt.Sprintf("%s: message ToBytes() has %d bytes, want %d", name, len(mb), 14+wantLen), c16Case{Source: "biglist"})
			}
		}
	}
	// the first listing an object ever gets, asked for by eight goroutines at the same moment (released by a spin
	// barrier): each gets every name once, in printed order - leaf items, lists, messages that were never inside a list
	for round := 0; round < c.pick(150, 1500); round++ {
		rr := rng.New(uint64(16000 + round))
		n := 50 + rr.Intn(3000)
		names := make([]string, n)
		args := make([]interface{}, n)
		for i := range names {
			names[i] = fmt.Sprintf("%c%d_%d", 'a'+rune(rr.Intn(26)), rr.Intn(100000), i)
			args[i] = names[i]
		}
		var obj interface{ Variables() []string }
		switch round % 5 {
		case 0:
			obj = ast.NewUintNode(2, args...)
		case 1:
			obj = ast.NewFloatNode(8, args...)
		case 2:
			obj = ast.NewBinaryNode(args...)
		case 3:
			obj = ast.NewListNode(args...)
		default:
			obj = ast.NewDataMessage("m", 1, 1, 0, "H->E", ast.NewIntNode(4, args...))
		}
		const G = 8
		var arrived int32
		got := make([][]string, G)
		var wg sync.WaitGroup
		for g := 0; g < G; g++ {
			wg.Add(1)
			go func(g int) {
				defer wg.Done()
				defer func() { recover() }()
				atomic.AddInt32(&arrived, 1)
				for atomic.LoadInt32(&arrived) < G {
				}
				got[g] = append([]string(nil), obj.Variables()...)
			}(g)
		}
		wg.Wait()
		c.NoteBulk(G, G)
		c.Class("first-listing-asked-by-several-goroutines")
		for g := range got {
			if !real.EqStrs(got[g], names) {
				c.Violation("C16/first-listing-under-concurrency", fmt.Sprintf("a fresh object with %d variables listed for the first time by %d goroutines at once: goroutine %d got %d names (first difference at %d)", n, G, g, len(got[g]), firstDiff(got[g], names)), c16Case{Source: "concurrent-first-listing"})
				round = 1 << 30
				break
			}
		}
	}
	// one list object used as the first element of two parents (user-built sharing): each parent keeps its own names
	for nsub := 1; nsub <= 17; nsub++ {
		var subArgs []interface{}
		var subNames []string
		for i := 0; i < nsub; i++ {
			n := fmt.Sprintf("s%d", i)
			subNames = append(subNames, n)
			if i%2 == 0 {
				subArgs = append(subArgs, ast.NewUintNode(1, n))
			} else {
				subArgs = append(subArgs, n)
			}
		}
		var sub, p1, p2 ast.ItemNode
		o := real.Try(func() {
			sub = ast.NewListNode(subArgs...)
			p1 = ast.NewListNode(sub, "p", ast.NewIntNode(2, "p2"))
			p2 = ast.NewListNode(sub, "q", "q2", "q3")
		})
		c.NoteBulk(1, 1)
		c.Class("shared-sub-list")
		cs := c16Case{Source: "shared-sub-list", Text: fmt.Sprint(nsub)}
		if o.Panicked {
			c.Violation("C16/shared-sub-list-refused", o.String(), cs)
			continue
		}
		want1 := append(append([]string{}, subNames...), "p", "p2")
		want2 := append(append([]string{}, subNames...), "q", "q2", "q3")
		if !real.EqStrs(p1.Variables(), want1) || !real.EqStrs(p2.Variables(), want2) || !real.EqStrs(sub.Variables(), subNames) {
			c.Violation("C16/listing-vs-printed-order/shared-sub-list", fmt.Sprintf("Variables() = %q and %q (sub-list %q), want %q and %q", p1.Variables(), p2.Variables(), sub.Variables(), want1, want2), cs)
			continue
		}
		c16Item(c, cs, p1, nil)
		c16Item(c, cs, p2, nil)
		// a list around both reuses the name p: refused, or every name once
		var both ast.ItemNode
		if o := real.Try(func() { both = ast.NewListNode(p1, ast.NewListNode(ast.NewBinaryNode("p"))) }); !o.Panicked {
			c16Item(c, cs, both, nil)
		}
	}
	// the same ellipsis name in two lists of one tree is a duplicate like any other name
	for _, build := range []func() ast.ItemNode{
		func() ast.ItemNode { return ast.NewListNode(ast.NewListNode(ast.NewUintNode(1, 1), "..."), "...") },
		func() ast.ItemNode {
			return ast.NewListNode(ast.NewListNode(ast.NewUintNode(1, 1), "...[0]"), ast.NewListNode(ast.NewUintNode(1, 2), "...[0]"))
		},
		func() ast.ItemNode {
			return ast.NewListNode(ast.NewUintNode(1, 1), "lv", "...").FillVariables(map[string]interface{}{"lv": ast.NewListNode(ast.NewUintNode(1, 2), "...")})
		},
	} {
		var node ast.ItemNode
		o := real.Try(func() { node = build() })
		c.NoteBulk(1, 1)
		c.Class("same-ellipsis-name-twice")
		if !o.Panicked {
			c16Item(c, c16Case{Source: "same-ellipsis-name-twice"}, node, nil)
		}
	}
	// a variable with 60..300 lists around it (round 10): listed by every enclosing list and by the message, in printed
	// order with the names beside it, and a duplicate that deep is a duplicate
	for _, depth := range []int{60, 63, 64, 65, 66, 67, 100, 127, 128, 129, 200, 255, 256, 257, 300} {
		for _, k := range []ref.Kind{ref.L, ref.U1, ref.A, ref.B, ref.BOOLEAN, ref.F8, ref.I4} {
			var bottom *ref.Item
			switch k {
			case ref.L:
				bottom = &ref.Item{Var: "deep"}
			case ref.A:
				bottom = &ref.Item{Kind: ref.A, AVar: "deep", AMin: 0, AMax: -1}
			default:
				bottom = &ref.Item{Kind: k, Slots: []ref.Slot{{}, {Var: "deep"}}}
			}
			it := bottom
			for d := 0; d < depth; d++ {
				kids := []*ref.Item{it}
				if d%16 == 7 {
					kids = append([]*ref.Item{{Kind: ref.U2, Slots: []ref.Slot{{Var: fmt.Sprintf("left%d", d)}}}}, kids...)
				}
				if d%32 == 9 || d == depth-1 {
					kids = append(kids, &ref.Item{Var: fmt.Sprintf("right%d", d)})
				}
				it = &ref.Item{Kind: ref.L, Children: kids}
			}
			c.Class("variable-under-60-to-300-lists")
			c16Eval(c, c16Case{Source: "direct", Item: it})
			m := gen.New(c.rnd.Derive(uint64(1600+depth)), gen.Profile{}).Msg(it, false)
			c16Eval(c, c16Case{Source: "message", Msg: m})
			// the same name once more at the top: refused, or at least not listed twice
			var dup ast.ItemNode
			if o := real.Try(func() { dup = ast.NewListNode(real.Build(it), ast.NewUintNode(1, "deep")) }); !o.Panicked {
				c.Violation("C16/duplicate-name-accepted/deep", fmt.Sprintf("a list holding the variable %q under %d lists and again beside them was constructed; Variables() lists %d names", "deep", depth, len(dup.Variables())), c16Case{Source: "deep-duplicate", Text: fmt.Sprint(depth, " ", k)})
			}
		}
	}
	// the same refusal asked for thousands of times (round 10): a list whose first and last names are equal, with fresh
	// names in between every time, is refused the first time and the 12,000th time alike - whatever the duplicate
	// check keeps between constructions
	{
		r := c.rnd.Derive(1616)
		reps := c.pick(12000, 120000)
		accepted := 0
		for rep := 0; rep < reps && accepted < 3; rep++ {
			k := 2 + r.Intn(60)
			args := make([]interface{}, 0, k+1)
			first := fmt.Sprintf("d%d_0", rep)
			for i := 0; i < k; i++ {
				name := fmt.Sprintf("d%d_%d", rep, i)
				switch (rep + i) % 3 {
				case 0:
					args = append(args, name)
				case 1:
					args = append(args, ast.NewUintNode(1, name))
				default:
					args = append(args, ast.NewListNode(ast.NewBinaryNode(name)))
				}
			}
			if rep%2 == 0 {
				args = append(args, ast.NewListNode(ast.NewIntNode(2, first)))
			} else {
				args = append(args, first)
			}
			var node ast.ItemNode
			o := real.Try(func() { node = ast.NewListNode(args...) })
			c.NoteBulk(1, 1)
			c.Class("duplicate-refused-again-and-again")
			if !o.Panicked {
				accepted++
				c.Violation("C16/duplicate-name-accepted/repetition", fmt.Sprintf("repetition %d: a list of %d named elements whose last element repeats the first name %q was constructed; Variables() = %q", rep, k+1, first, clipS(fmt.Sprint(node.Variables()))), c16Case{Source: "repeated-duplicate", Text: fmt.Sprint(rep)})
			}
		}
	}
	// whatever the factories let through has no variables and therefore must encode (also just beyond the size limit,
	// where the factory is expected to refuse)
	for _, k := range []ref.Kind{ref.F4, ref.F8, ref.I8, ref.U4, ref.I2} {
		n := ref.MaxBytes/k.Width() + 1
		var node ast.ItemNode
		o := real.Try(func() { node = c13Build(k, n) })
		c.NoteBulk(1, 1)
		c.Class("item-just-beyond-the-limit")
		if !o.Panicked {
			cs := c16Case{Source: "beyond-limit", Text: fmt.Sprintf("%s x %d", k, n)}
			if len(node.Variables()) == 0 && len(node.ToBytes()) == 0 {
				c.Violation("C16/encodable-iff-no-variables/beyond-limit", fmt.Sprintf("%s with %d elements was constructed, has no variables, and encodes to nothing", k, n), cs)
			}
		}
	}
	c.Required = []string{"variable-under-60-to-300-lists", "duplicate-refused-again-and-again", "item-just-beyond-the-limit", "shared-sub-list", "same-ellipsis-name-twice", "wide-item-with-variables", "first-listing-asked-by-several-goroutines", "list-longer-than-any-item", "n-variables-in-one-node", "rename-refused", "rename-accepted", "object/direct", "object/expanded", "object/message", "object/derived", "object/parsed", "variable-free", "with-variables"}
}

func replayC16(c *ctx, raw json.RawMessage) {
	var cs c16Case
	if json.Unmarshal(raw, &cs) == nil {
		c16Eval(c, cs)
	}
}
