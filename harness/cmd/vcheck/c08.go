package main

import (
	"encoding/json"
	"fmt"
	"regexp"
	"strings"
	"unicode/utf8"

	"verifharness/internal/gen"
	"verifharness/internal/real"
	"verifharness/internal/ref"
	"verifharness/internal/rng"
	"verifharness/internal/smltext"

	"github.com/wolimst/lib-secs2-hsms-go/pkg/ast"
)

// C08 — comments, white space and letter case never change what is parsed.
// Metamorphic: one token sequence, two renderings; the renderer knows where
// every token is in both, so diagnostics can be matched position by position.

type c08Case struct {
	Move  string   `json:"move"` // layout | case
	Toks  []string `json:"tokens"`
	Text1 string   `json:"text1"`
	Text2 string   `json:"text2"`
	Pos1  [][2]int `json:"pos1"`
	Pos2  [][2]int `json:"pos2"`
	End1  [2]int   `json:"end1"`
	End2  [2]int   `json:"end2"`
	Kind  string   `json:"kind"` // valid | mutated | soup
}

func init() { register("C08", "exploration", runC08, replayC08) }

func posList(ps []smltext.Pos) [][2]int {
	out := make([][2]int, len(ps))
	for i, p := range ps {
		out[i] = [2]int{p.Line, p.Col}
	}
	return out
}

// mapPos maps a position in rendering 1 to the corresponding position in rendering 2.
func mapPos(cs *c08Case, p smltext.Pos) (smltext.Pos, string) {
	if p.Line == cs.End1[0] && p.Col == cs.End1[1] {
		return smltext.Pos{Line: cs.End2[0], Col: cs.End2[1]}, "end"
	}
	for i, t := range cs.Toks {
		s := cs.Pos1[i]
		if p.Line == s[0] && p.Col >= s[1] && p.Col < s[1]+utf8.RuneCountInString(t) {
			return smltext.Pos{Line: cs.Pos2[i][0], Col: cs.Pos2[i][1] + (p.Col - s[1])}, "token"
		}
	}
	return smltext.Pos{}, "gap"
}

func c08Eval(c *ctx, cs c08Case) {
	m1, e1, w1, o1 := smlParse(cs.Text1)
	m2, e2, w2, o2 := smlParse(cs.Text2)
	gapsDiffer := cs.Text1 != cs.Text2
	nt := gapsDiffer && (strings.Contains(cs.Text1, "//") || strings.Contains(cs.Text2, "//") || len(cs.Toks) >= 4)
	c.Note(rng.Mix(rng.HashStr(cs.Text1), rng.HashStr(cs.Text2)), nt)
	c.Class("move/" + cs.Move + "/" + cs.Kind)
	if len(e1) > 0 {
		c.Class("with-errors")
	} else {
		c.Class("accepted")
	}
	sig := cs.Move + "/" + cs.Kind
	if o1.Panicked || o2.Panicked {
		if o1.Panicked != o2.Panicked {
			c.Violation("C08/panic-in-one-layout/"+sig, fmt.Sprintf("%s vs %s", o1, o2), cs)
		}
		return // an escaping panic in both is C06's subject
	}
	if len(m1) != len(m2) {
		c.Violation("C08/message-count-differs/"+sig, fmt.Sprintf("%d vs %d messages; errors %q vs %q\n--- text1 %q\n--- text2 %q", len(m1), len(m2), e1, e2, clipS(cs.Text1), clipS(cs.Text2)), cs)
		return
	}
	for i := range m1 {
		if d := real.Snap(m1[i]).Diff(real.Snap(m2[i])); d != "" {
			c.Violation("C08/message-differs/"+sig, fmt.Sprintf("message %d: %s\n--- text1 %q\n--- text2 %q", i, d, clipS(cs.Text1), clipS(cs.Text2)), cs)
			return
		}
	}
	for _, pair := range [][2][]string{{e1, e2}, {w1, w2}} {
		a, b := pair[0], pair[1]
		if len(a) != len(b) {
			c.Violation("C08/diagnostic-count-differs/"+sig, fmt.Sprintf("%q vs %q\n--- text1 %q\n--- text2 %q", a, b, clipS(cs.Text1), clipS(cs.Text2)), cs)
			return
		}
		for i := range a {
			p1, t1, ok1 := smltext.ParseDiag(a[i])
			p2, t2, ok2 := smltext.ParseDiag(b[i])
			if !ok1 || !ok2 {
				c.Violation("C08/diagnostic-format", fmt.Sprintf("%q / %q", a[i], b[i]), cs)
				return
			}
			same := t1 == t2
			if cs.Move == "case" {
				same = strings.EqualFold(t1, t2)
			}
			if !same {
				c.Violation("C08/diagnostic-text-differs/"+sig, fmt.Sprintf("%q vs %q\n--- text1 %q\n--- text2 %q", a[i], b[i], clipS(cs.Text1), clipS(cs.Text2)), cs)
				return
			}
			want, how := mapPos(&cs, p1)
			c.Class("diagnostic-at/" + how)
			if how == "gap" {
				c.Violation("C08/diagnostic-points-into-a-gap/"+sig, fmt.Sprintf("%q points between tokens (white space or comment)\n--- text1 %q", a[i], clipS(cs.Text1)), cs)
				return
			}
			if want != p2 {
				c.Violation("C08/diagnostic-position-not-moved-with-its-token/"+sig, fmt.Sprintf("%q in layout 1 belongs at Ln %d, Col %d in layout 2, reported %q\n--- text1 %q\n--- text2 %q", a[i], want.Line, want.Col, b[i], clipS(cs.Text1), clipS(cs.Text2)), cs)
				return
			}
		}
	}
	if c.WantSample() && nt && len(cs.Text1) < 200 && strings.Contains(cs.Text2, "//") {
		c.Sample(map[string]interface{}{"move": cs.Move, "kind": cs.Kind, "text1": cs.Text1, "text2": cs.Text2, "messages": len(m1), "errors": e1})
	}
}

// literals of every spelling, to stand where a value of another kind is expected
var oddLiterals = []string{"0x1f", "0X1F", "0xabcdef", "0b101", "0B11", "0o17", "0O7", "1e5", "1E5", "2.5e-3", "1.5", "-0x10", "+0b1", "0x", "0b", "1e", "T", "f", "t", "F",
	"0x7f", "0xFF", "255", "256", "-1", "1e400", "0x1p-2", "0X1P+2", "inf", "NaN", "Infinity", "nan", "true", "False", "0e0", "00", "0x00000000000000001"}

var soupVocab = []string{"S1F1", "S6F11", "s0f0", "S999F1", "S1F999", "W", "[W]", "w", "H->E", "H<-E", "H<->E", "h->e", "Name", "名前", "a.b", ".", "<", ">", "L", "A", "B", "BOOLEAN",
	"F4", "F8", "I1", "I2", "I4", "I8", "U1", "U2", "U4", "U8", "l", "boolean", "[2]", "[0]", "[1..3]", "[..2]", "[2..]", "[ 2 .. 3 ]", "[]", "[x]", "0", "1", "-1", "255", "256", "0x1F", "0b101", "0o17",
	"1.5", "-2.5e3", "1e999", "0x", "1e", "T", "F", "t", "x", "var_1", "v[0]", "v[1][2]", "...", "...[0]", "...[3]", `"str"`, `""`, `"a b"`, `"<L>"`, "@", "#", "é", "1x", "12abc"}

var sizeRe = regexp.MustCompile(`^\[([0-9]*)(\.\.)?([0-9]*)\]$`)
var innerBlanks = []string{"", "", " ", "\t", "\n", "\r\n", "  ", "\n  ", " \n"}

// sizeSpellings gives every well-formed size declaration a spelling with random
// blanks and line breaks inside the brackets (the lexer allows them there; no comments).
func sizeSpellings(r *rng.R, toks []smltext.Tok, base []string) ([]string, int) {
	out := make([]string, len(toks))
	copy(out, base)
	n := 0
	for i, t := range toks {
		if t.Class != smltext.Bracket {
			continue // a message name may look like a size declaration ("[1]"); only real size tokens are respelled
		}
		m := sizeRe.FindStringSubmatch(strings.ReplaceAll(t.S, " ", ""))
		if m == nil || (m[1] == "" && m[3] == "") || strings.ContainsAny(t.S, " ") && r.Bool() {
			continue
		}
		b := func() string { return innerBlanks[r.Intn(len(innerBlanks))] }
		s := "[" + b() + m[1]
		if m[1] != "" {
			s += b()
		}
		if m[2] != "" {
			s += ".." + b()
		}
		if m[3] != "" {
			s += m[3] + b()
		}
		s += "]"
		if s != t.S {
			out[i] = s
			if strings.Contains(s, "\n") {
				n++
			}
		}
	}
	return out, n
}

func mkCase(r *rng.R, toks []smltext.Tok, kind, move string, stats func(map[string]int)) c08Case {
	cs := c08Case{Move: move, Kind: kind}
	for _, t := range toks {
		cs.Toks = append(cs.Toks, t.S)
	}
	quoteOK := true
	for _, t := range toks {
		if strings.Count(t.S, `"`)%2 == 1 {
			quoteOK = false
		}
	}
	var rd1, rd2 smltext.Rendered
	if move == "case" {
		lead, gaps, _ := smltext.Layout(r, toks, smltext.LayoutOpts{AddOptional: true, Comments: r.Bool(), QuoteInCmt: quoteOK})
		sp := smltext.CaseSpelling(r, toks)
		rd1 = smltext.Render(toks, lead, gaps, nil)
		rd2 = smltext.Render(toks, lead, gaps, sp)
	} else {
		l1, g1, s1 := smltext.Layout(r, toks, smltext.LayoutOpts{AddOptional: r.Bool(), Comments: r.Chance(1, 3), QuoteInCmt: quoteOK, FinalNoEOL: true})
		l2, g2, s2 := smltext.Layout(r, toks, smltext.LayoutOpts{AddOptional: true, Comments: true, QuoteInCmt: quoteOK, FinalNoEOL: true})
		// blanks inside size brackets only where the token is certainly a size declaration (inside an item of a valid
		// message); in the header state "[2 ..]" would be two names
		var sp1, sp2 []string
		n1, n2 := 0, 0
		if kind == "valid" {
			sp1, n1 = sizeSpellings(r, toks, nil)
			sp2, n2 = sizeSpellings(r, toks, nil)
		}
		huge := 0
		if r.Chance(1, 300) {
			// one gap of the second rendering grows beyond 65536 columns or lines (positions are not 16-bit quantities)
			n := []int{65530, 65534, 65535, 65536, 65537, 65541, 70000, 131071, 131073}[r.Intn(9)]
			fill := " "
			if r.Chance(1, 3) {
				fill = "\n"
			}
			var cand []int
			for j, gp := range g2 {
				if gp != "" {
					cand = append(cand, j)
				}
			}
			if len(cand) > 0 {
				j := cand[r.Intn(len(cand))]
				g2 = append([]string(nil), g2...)
				g2[j] = strings.Repeat(fill, n) + g2[j]
				huge = 1
			} else {
				l2 = strings.Repeat(fill, n) + l2
				huge = 1
			}
		}
		rd1 = smltext.Render(toks, l1, g1, sp1)
		rd2 = smltext.Render(toks, l2, g2, sp2)
		if stats != nil && huge > 0 {
			stats(map[string]int{"gap-beyond-65536-columns-or-lines": huge})
		}
		if stats != nil {
			stats(s1)
			stats(s2)
			stats(map[string]int{"size-declaration-with-inner-line-break": n1 + n2})
		}
	}
	cs.Text1, cs.Text2 = rd1.Text, rd2.Text
	cs.Pos1, cs.Pos2 = posList(rd1.Tok), posList(rd2.Tok)
	cs.End1, cs.End2 = [2]int{rd1.End.Line, rd1.End.Col}, [2]int{rd2.End.Line, rd2.End.Col}
	return cs
}

func forceGaps(toks []smltext.Tok) []smltext.Tok {
	out := make([]smltext.Tok, len(toks))
	for i, t := range toks {
		t.Class = smltext.Header
		out[i] = t
	}
	return out
}

func runC08(c *ctx) {
	c.Rule = "one token sequence, two renderings. Sequences: valid messages (1-3 per text, all literal forms), valid messages with one token deleted/duplicated/replaced (always-separated tokens), valid messages in which one value is replaced in place by a literal of another kind or spelling, token soups from the SML vocabulary. Layout move: every gap becomes any non-empty mix of space/tab/LF/CRLF (optional gaps may appear/disappear only where the harness's own rule says the two tokens cannot merge), // comments with 45 bodies (punctuation, several scripts, every kind of final byte incl. ...0x85, ...0xA0, VT, FF, NBSP, U+2028, quotes) appended to any line, with or without a final line break; now and then one gap of more than 65536 blanks or line breaks. Case move: S/F, W, [W], direction, type names, T/F, 0X/0B/0O, hex digits, exponent E. Oracle: identical messages (all observers), same number of errors and warnings, same texts (case-insensitively for case moves), and each diagnostic's position must be the position of the same token (same offset inside it) or the end of input in the other rendering. non-trivial = the renderings differ and contain a comment or >= 4 tokens; distinct by the pair of texts Also (rounds 5-8): one gap in 300 grows to 65530..131073 blanks or line breaks; eight hand-written multi-diagnostic sequences under 150/1500 layout pairs; wait-bit and direction keywords glued to '<', '.' or a comment. Also (round 9): sequences with a string literal that lacks its closing quote, kept last on its line in both renderings, with blanks or a quote-free comment behind it."
	c.Assume = []string{"the renderer's (line, column) convention: line = 1 + number of LF before, column = 1 + characters since the last LF", "optional gaps are only used inside valid messages, where the harness's GapRequired rule says the neighbours cannot merge", "comment bodies contain a double quote only when every token has balanced quotes"}
	var statMu = make(chan struct{}, 1)
	agg := map[string]int{}
	stats := func(m map[string]int) {
		statMu <- struct{}{}
		for k, v := range m {
			agg[k] += v
		}
		<-statMu
	}
	n := c.pick(70000, 700000)
	c.parallel(n, func(i int, r *rng.R) {
		g := gen.New(r, gen.Profile{MaxDepth: 1 + r.Intn(3), Vars: i%3 == 0, Ellipsis: i%7 == 0, Budget: 120, MaxKids: 3, MaxElems: 4})
		move := "layout"
		if i%5 == 4 {
			move = "case"
		}
		switch i % 4 {
		case 0, 1: // valid messages
			var toks []smltext.Tok
			for k := 1 + r.Intn(3); k > 0; k-- {
				var it *ref.Item
				if !r.Chance(1, 8) {
					it = g.Tree()
				}
				m := g.Msg(it, false)
				if r.Chance(1, 4) {
					m.Dir = ""
				}
				st := &smltext.NumStyle{R: r, Variety: true}
				toks = append(toks, smltext.MsgToks(st, m, r.Bool())...)
			}
			c08Eval(c, mkCase(r, toks, "valid", move, stats))
		case 2: // a valid message in which one value is replaced by a literal of another kind or spelling: the token keeps
			// its place inside the item (so letter-case and layout moves stay admissible), the text is mostly invalid
			if i%8 == 2 {
				it := g.Tree()
				items := allItems(it)
				victim := items[r.Intn(len(items))]
				if victim.Kind == ref.L || victim.AVar != "" {
					return
				}
				slot := -1
				if len(victim.Slots) > 0 {
					slot = r.Intn(len(victim.Slots))
				}
				lit := oddLiterals[r.Intn(len(oddLiterals))]
				done := false
				st := &smltext.NumStyle{R: r, Variety: true}
				st.Replace = func(x *ref.Item, sl int) []smltext.Tok {
					if x != victim || sl != slot || done {
						return nil
					}
					done = true
					up := strings.ToUpper(lit)
					if c0 := lit[0]; (c0 >= '0' && c0 <= '9') || c0 == '-' || c0 == '+' || up == "T" || up == "F" {
						return []smltext.Tok{smltext.KW(lit, smltext.Word)} // numbers and T/F: letter case is free
					}
					return []smltext.Tok{smltext.W(lit)} // identifiers (inf, NaN, true …) are variable names: case matters
				}
				toks := smltext.MsgToks(st, g.Msg(it, false), false)
				if !done {
					return
				}
				c08Eval(c, mkCase(r, toks, "odd-literal", move, stats))
				return
			}
			m := g.Msg(g.Tree(), false)
			st := &smltext.NumStyle{R: r, Variety: true}
			toks := smltext.MsgToks(st, m, r.Bool())
			j := r.Intn(len(toks))
			switch r.Intn(4) {
			case 0:
				toks = append(toks[:j:j], toks[j+1:]...)
			case 1:
				toks = append(toks[:j+1:j+1], toks[j:]...)
			case 2:
				toks[j] = smltext.W(soupVocab[r.Intn(len(soupVocab))])
			default:
				k := r.Intn(len(toks))
				toks[j], toks[k] = toks[k], toks[j]
			}
			if len(toks) == 0 {
				return
			}
			// letter case is only free where a token keeps its role: a direction moved into an item is a
			// variable name (case-sensitive), a type name moved into the header is a message name
			move = "layout"
			// a mutation can move a token into the other lexer state: a quoted string is only a
			// string inside an item (in the header "//" starts a comment even between quotes) and a
			// name holding a quote character would open a string inside an item. Sequences in which
			// that could matter are not admissible for a layout comparison.
			for _, t := range toks {
				if strings.Contains(t.S, "//") || strings.Count(t.S, `"`)%2 == 1 {
					return
				}
			}
			c08Eval(c, mkCase(r, forceGaps(toks), "mutated", move, stats))
		case 3: // soup
			k := 1 + r.Intn(14)
			toks := make([]smltext.Tok, k)
			for j := range toks {
				toks[j] = smltext.H(soupVocab[r.Intn(len(soupVocab))])
			}
			if r.Bool() {
				toks[0] = smltext.H("S1F1")
			}
			c08Eval(c, mkCase(r, toks, "soup", "layout", stats))
		}
	})
	// texts with several diagnostics whose order of detection is not their order in the text (a size declaration is
	// judged after the values that follow it; a duplicate name after the first use): every layout must keep the
	// sequence of diagnostics
	multi := [][]string{
		{"S1F1", "W", "<", "U1", "[1]", "300", "2", ">", "."},
		{"S1F1", "W", "<", "L", "[1]", "<", "U1", "300", ">", "<", "A", "[1]", "\"ab\"", ">", ">", "."},
		{"S1F1", "W", "<", "A", "[2..3]", "\"a\"", "200", "300", ">", "."},
		{"S1F1", "W", "<", "L", "<", "U1", "x", ">", "<", "U1", "x", ">", "<", "I1", "200", "-200", ">", ">", "."},
		{"S1F1", "W", "<", "B", "[..1]", "256", "0b2", "1", ">", ".", "S2F2", "W", "<", "I2", "[3]", "40000", ">", "."},
		{"S1F1", "W", "<", "L", "[0]", "<", "L", "[0]", "<", "F4", "[2]", "1e39", ">", ">", ">", "."},
		{"S1F1", "W", "<", "U1", "300", "400", ">", "<", "U1", "300", ">", "."},
		{"S1F2", "W", "H->E", "<", "BOOLEAN", "[1]", "T", "2", "F", ">", "."},
	}
	c.parallel(len(multi)*c.pick(150, 1500), func(i int, r *rng.R) {
		var toks []smltext.Tok
		for _, t := range multi[i%len(multi)] {
			toks = append(toks, smltext.H(t))
		}
		c.Class("several-diagnostics-out-of-text-order")
		c08Eval(c, mkCase(r, toks, "mutated", "layout", stats))
	})
	// a string literal that lacks its closing quote ends with its line; it is the last token of that line in both
	// renderings, and what stands between it and the line break (blanks, a comment without a quote character) is layout
	unclosed := [][]string{
		{"S1F1", "W", "H->E", "Name", "<", "A", "\"abc", ">", "."},
		{"S2F1", "H->E", "<", "L", "<", "U1", "1", ">", "<", "A", "65", "\"x>", ">", "."},
		{"S1F1", "W", "<", "A", "\"", ">", "."},
		{"S1F1", "W", "<", "L", "<", "A", "\"two words", ">", "<", "U1", "300", ">", ">", "."},
		{"S1F1", "W", "<", "A", "\"closed\"", "\"open", ">", ".", "S1F3", "W", "<", "U1", "1", ">", "."},
		{"S1F1", "W", "<", "U1", "\"7", ">", "."},
	}
	tails := []string{"", "", " ", "\t", "  \t ", " // model name", "//x", "\t//x", " //", " // à", " // S1F1 W <A x> .", " //ends in nbsp\u00a0"}
	c.parallel(len(unclosed)*c.pick(150, 1500), func(i int, r *rng.R) {
		var toks []smltext.Tok
		at := -1
		for j, t := range unclosed[i%len(unclosed)] {
			toks = append(toks, smltext.H(t))
			if strings.Count(t, `"`)%2 == 1 {
				at = j
			}
		}
		lay := func() (string, []string) {
			l, g, _ := smltext.Layout(r, toks, smltext.LayoutOpts{AddOptional: true, Comments: r.Bool(), FinalNoEOL: true})
			eol := "\n"
			if r.Chance(1, 4) {
				eol = "\r\n"
			}
			rest := ""
			if r.Chance(1, 3) {
				rest = []string{" ", "\t", "\n", "  "}[r.Intn(4)]
			}
			g[at] = tails[r.Intn(len(tails))] + eol + rest
			return l, g
		}
		l1, g1 := lay()
		l2, g2 := lay()
		rd1, rd2 := smltext.Render(toks, l1, g1, nil), smltext.Render(toks, l2, g2, nil)
		cs := c08Case{Move: "layout", Kind: "mutated"}
		for _, t := range toks {
			cs.Toks = append(cs.Toks, t.S)
		}
		cs.Text1, cs.Text2 = rd1.Text, rd2.Text
		cs.Pos1, cs.Pos2 = posList(rd1.Tok), posList(rd2.Tok)
		cs.End1, cs.End2 = [2]int{rd1.End.Line, rd1.End.Col}, [2]int{rd2.End.Line, rd2.End.Col}
		c.Class("unclosed-string-last-on-its-line")
		c08Eval(c, cs)
	})
	// round 11: a comment glued to EVERY token in turn (no blank before the "//"), in particular to message names that
	// hold slashes, and comment bodies that end in each Unicode white-space code point followed by blanks, tabs or CR
	{
		r := c.rnd.Derive(811)
		names := []string{"In/Out", "a/b/c", "/x", "x/y/", "漢/字", "a/b", "/", "p/*q", "plain", "http:/x", "a/-/b"}
		ends := []string{"\u3000", "\u2003", "\u2009", "\u1680", "\u202f", "\u205f", "\u2028", "\u2029", "\u200b", "\ufeff", "\u00a0", "\u0085", "\v", "\f", "é", "/", "//",
			// letters whose upper-case form has another UTF-8 length (dotless i, long s, turned a, alpha): a comment is not case-mapped, and nothing behind it moves
			"ölçüm alındı", "ı", "ſ", "ɐ", "ɑɐ ſı"}
		tails := []string{"", " ", "\t", "  \t ", "\r"}
		it := &ref.Item{Kind: ref.L, Children: []*ref.Item{{Kind: ref.U1, Slots: []ref.Slot{{Uint: 1}, {Var: "v/w"}}}, {Kind: ref.A, Str: []byte("a//b")}, {Kind: ref.L, Children: []*ref.Item{{Kind: ref.BOOLEAN, Slots: []ref.Slot{{Uint: 1}}}}}}}
		for ni, name := range names {
			for wi, w := range []int{0, 1, 2} {
				m := &ref.Msg{Name: name, Stream: 1 + ni, Function: 1 + 2*wi, W: w, Dir: []string{"H->E", "H<-E", "H<->E"}[(ni+wi)%3], Item: it, Session: -1}
				toks := smltext.MsgToks(&smltext.NumStyle{R: r}, m, wi == 1)
				base := smltext.Canonical(toks)
				rd1 := smltext.Render(toks, "", base, nil)
				for at := 0; at+1 < len(toks); at++ {
					if strings.HasSuffix(toks[at].S, "/") {
						continue // "x/" + "//c" would read as "x" + "///c"
					}
					body := "note " + ends[(at+ni)%len(ends)] + tails[(at+wi)%len(tails)]
					if at%3 == 0 {
						body = ends[(at+ni)%len(ends)] + tails[(at+wi)%len(tails)]
					}
					gaps := append([]string(nil), base...)
					gaps[at] = "//" + body + "\n"
					rd2 := smltext.Render(toks, "", gaps, nil)
					cs := c08Case{Move: "layout", Kind: "valid"}
					for _, t := range toks {
						cs.Toks = append(cs.Toks, t.S)
					}
					cs.Text1, cs.Text2 = rd1.Text, rd2.Text
					cs.Pos1, cs.Pos2 = posList(rd1.Tok), posList(rd2.Tok)
					cs.End1, cs.End2 = [2]int{rd1.End.Line, rd1.End.Col}, [2]int{rd2.End.Line, rd2.End.Col}
					c.Class("comment-glued-to-every-token-in-turn")
					c08Eval(c, cs)
				}
			}
		}
	}
	for k, v := range agg {
		c.ClassN("layout/"+k, int64(v))
	}
	c.Required = []string{"comment-glued-to-every-token-in-turn", "unclosed-string-last-on-its-line", "move/layout/valid", "move/layout/mutated", "move/layout/soup", "move/layout/odd-literal", "move/case/odd-literal", "move/case/valid", "accepted", "with-errors", "layout/comment", "layout/comment-final-byte/0xa0", "layout/comment-final-byte/0x85", "layout/comment/final-without-eol", "layout/size-declaration-with-inner-line-break", "layout/gap-beyond-65536-columns-or-lines", "diagnostic-at/token", "diagnostic-at/end", "several-diagnostics-out-of-text-order"}
}

func replayC08(c *ctx, raw json.RawMessage) {
	var cs c08Case
	if json.Unmarshal(raw, &cs) == nil && cs.Text1 != "" {
		c08Eval(c, cs)
	}
}

var _ = ast.NewEmptyItemNode
