package main

import (
	"encoding/json"
	"fmt"
	"github.com/wolimst/lib-secs2-hsms-go/pkg/ast"
	"os"
	"path/filepath"
	"regexp"
	"runtime"
	"sort"
	"strings"
	"sync"
	"sync/atomic"
	"time"
	"unicode/utf8"

	"verifharness/internal/gen"
	"verifharness/internal/iso"
	"verifharness/internal/ref"
	"verifharness/internal/rng"
	"verifharness/internal/smltext"

	"github.com/wolimst/lib-secs2-hsms-go/pkg/parser/sml"
)

// C06 — the SML parser is total and all-or-nothing.
// Inputs run in child worker processes (address-space limit, watchdog); the
// worker's wrapper checks every returned triple, the step counters of hook H2
// decide "does not hang" on logical steps.

type c06Case struct {
	Family string `json:"family"`
	Len    int    `json:"len"`
	Text   string `json:"text,omitempty"`   // inputs up to 8 KiB verbatim (as a Go-quoted string in Quoted)
	Quoted string `json:"quoted,omitempty"` // strconv.Quote form, safe for invalid UTF-8
	Recipe string `json:"recipe,omitempty"`
	Meta   string `json:"meta,omitempty"`
}

func init() { register("C06", "exploration", runC06, replayC06) }

var diagRe = regexp.MustCompile(`^Ln (\d+), Col (\d+): .`)
var digitsRe = regexp.MustCompile(`[0-9]+`)
var quotedRe = regexp.MustCompile(`"(?:[^"\\]|\\.)*"|U\+[0-9A-Fa-f]+( '.*')?`)

// diagShape reduces a diagnostic text to its shape: quoted token text,
// character names and numbers removed (the coverage signal of the generator).
func diagShape(text string) string {
	s := quotedRe.ReplaceAllString(text, "Q")
	s = digitsRe.ReplaceAllString(s, "N")
	if len(s) > 80 {
		s = s[:80]
	}
	return s
}

// lineLengths returns the number of runes of every line of the input
// (lines are separated by LF).
func lineLengths(s string) []int {
	var out []int
	n := 0
	for len(s) > 0 {
		r, sz := utf8.DecodeRuneInString(s)
		s = s[sz:]
		if r == '\n' {
			out = append(out, n)
			n = 0
		} else {
			n++
		}
	}
	return append(out, n)
}

// listWalkBudget: hook H4's bound on ListNode.Variables() calls during one parse of n input bytes. A nest of depth d
// costs about d^2 walks on this tree (every enclosing list looks at its whole subtree when it is built); d <= n/2.
func listWalkBudget(n int) int64 { return 100000 + 2*int64(n)*int64(n) }

type stepStats struct {
	inputLen             int
	nexts, states, peeks int64
	exceeded             bool
	seen                 bool
}

func smlWorker(w *iso.Worker) {
	var last stepStats
	sml.VerifHook = func(inputLen int, nexts, states, peeks int64, exceeded bool) {
		last = stepStats{inputLen, nexts, states, peeks, exceeded, true}
	}
	shapes := map[string]bool{}
	var m0, m1 runtime.MemStats
	ast.VerifCountListWalks = true // hook H4: this worker is single-goroutine
	// what the library keeps reachable between calls is measured over the whole batch (the batch itself is loaded already)
	runtime.GC()
	runtime.GC()
	runtime.ReadMemStats(&m0)
	heapBefore := m0.HeapAlloc
	maxIn := 0
	// the result of the previous successful call is kept and read again after the next call: it still is every
	// message of ITS input, in order
	var prevMsgs []*ast.DataMessage
	var prevHeaders []string
	prevIdx := -1
	for i, j := range w.Jobs {
		w.Begin(i)
		if j.Family == "concurrent-batch" {
			// several texts (separated by NUL) parsed at the same moment from as many goroutines: every call returns
			// normally and what it returns alone (an abort of the process is seen by the parent). The hooks are for
			// single-goroutine use and are switched off meanwhile.
			texts := strings.Split(string(j.Input), "\x00")
			ast.VerifCountListWalks = false
			hook := sml.VerifHook
			sml.VerifHook = nil
			alone := make([]string, len(texts))
			summ := func(t string) (out string) {
				defer func() {
					if r := recover(); r != nil {
						out = "panic: " + fmt.Sprint(r)
					}
				}()
				msgs, errs, warns := sml.Parse(t)
				var sb strings.Builder
				for _, m := range msgs {
					sb.WriteString(m.String())
					sb.WriteString("\n")
				}
				return sb.String() + fmt.Sprint(errs, warns)
			}
			var wg sync.WaitGroup
			together := make([]string, len(texts))
			var arrived int32
			for k := range texts {
				wg.Add(1)
				go func(k int) {
					defer wg.Done()
					atomic.AddInt32(&arrived, 1)
					for atomic.LoadInt32(&arrived) < int32(len(texts)) {
						runtime.Gosched()
					}
					for rep := 0; rep < 3; rep++ {
						together[k] = summ(texts[k])
					}
				}(k)
			}
			wg.Wait()
			for k := range texts {
				alone[k] = summ(texts[k])
				if alone[k] != together[k] {
					w.Report(iso.Finding{Index: i, Sig: "C06/result-differs-when-other-calls-are-in-flight", What: fmt.Sprintf("text %q parsed while %d other Parse calls were running gave %q, alone it gives %q", clipS(texts[k]), len(texts)-1, clipS(together[k]), clipS(alone[k])), Family: j.Family})
					break
				}
				if strings.HasPrefix(alone[k], "panic: ") {
					w.Report(iso.Finding{Index: i, Sig: "C06/panic-escaped/concurrent-batch", What: alone[k], Family: j.Family})
					break
				}
			}
			sml.VerifHook = hook
			ast.VerifCountListWalks = true
			w.Classes["family/"+j.Family]++
			w.End(i)
			continue
		}
		in := string(j.Input)
		if len(in) > maxIn {
			maxIn = len(in)
		}
		last = stepStats{}
		ast.VerifListWalks = 0
		ast.VerifListWalkBudget = listWalkBudget(len(in))
		escaped := ""
		var budget *sml.VerifBudgetExceeded
		var nmsg int
		var names []string
		var errs, warns []string
		runtime.ReadMemStats(&m0)
		func() {
			defer func() {
				if r := recover(); r != nil {
					if b, ok := r.(sml.VerifBudgetExceeded); ok {
						budget = &b
					} else {
						escaped = fmt.Sprint(r)
					}
				}
			}()
			msgs, e, wn := sml.Parse(in)
			nmsg = len(msgs)
			for _, m := range msgs {
				names = append(names, m.Name())
			}
			errs, warns = e, wn
			if prevMsgs != nil {
				for k, m := range prevMsgs {
					if h := m.Header(); h != prevHeaders[k] {
						w.Report(iso.Finding{Index: prevIdx, Sig: "C06/earlier-result-changed-by-a-later-parse", What: fmt.Sprintf("message %d returned for input %d had header %q; after input %d was parsed the same slice element has header %q", k, prevIdx, prevHeaders[k], i, h), Family: w.Jobs[prevIdx].Family})
						break
					}
				}
				w.Classes["earlier-result-re-read"]++
			}
			if len(e) == 0 && len(msgs) > 0 && len(msgs) <= 64 {
				prevMsgs, prevHeaders, prevIdx = msgs, prevHeaders[:0:0], i
				for _, m := range msgs {
					prevHeaders = append(prevHeaders, m.Header())
				}
			}
		}()
		runtime.ReadMemStats(&m1)
		w.Classes["family/"+j.Family]++
		report := func(sig, what string) {
			w.Report(iso.Finding{Index: i, Sig: sig, What: what, Family: j.Family})
		}
		// (i) no panic escapes
		if escaped != "" {
			w.Classes["escaped-panic"]++
			report("C06/panic-escaped/"+digitsRe.ReplaceAllString(clipS(escaped), "N"), "panic escaped sml.Parse: "+escaped)
		}
		// (iii) logical step budget
		if budget != nil || last.exceeded {
			what := "step budget exceeded"
			if budget != nil {
				what = fmt.Sprintf("%s: %d calls > budget %d for a %d-byte input", budget.What, budget.Count, budget.Budget, budget.InputLen)
			}
			report("C06/step-budget-exceeded", what)
		}
		// hook H4: work done inside package ast while lists are built and checked (the parser's own counters do not see
		// it): at most quadratic in the input length
		w.Max("ast_list_walks_per_len2", float64(ast.VerifListWalks)/float64((len(in)+8)*(len(in)+8)))
		if ast.VerifListWalks > ast.VerifListWalkBudget {
			report("C06/list-walk-budget-exceeded", fmt.Sprintf("more than %d list walks in package ast for a %d-byte input (budget 100000 + 2*len^2)", ast.VerifListWalkBudget, len(in)))
		}
		if ast.VerifListWalks > 0 {
			w.Classes["hook-H4-reached"]++
		}
		if !last.seen {
			w.Classes["hook-not-reached"]++
		} else {
			w.Classes["hook-reached"]++
			d := float64(len(in) + 1)
			w.Max("lexer_next_calls_per_byte", float64(last.nexts)/d)
			w.Max("lexer_state_calls_per_byte", float64(last.states)/d)
			w.Max("parser_peek_calls_per_byte", float64(last.peeks)/d)
		}
		w.Max("heap_sys_bytes", float64(m1.HeapSys))
		w.Max("alloc_bytes_per_input_byte/"+j.Family, float64(m1.TotalAlloc-m0.TotalAlloc)/float64(len(in)+1))
		if escaped == "" && budget == nil {
			// (iv) all-or-nothing
			if len(errs) > 0 && nmsg > 0 {
				report("C06/messages-returned-with-errors", fmt.Sprintf("%d messages together with errors %q", nmsg, errs))
			}
			if len(errs) > 0 {
				w.Classes["rejected"]++
			} else {
				w.Classes["accepted"]++
			}
			if len(warns) > 0 {
				w.Classes["with-warnings"]++
			}
			// (v) every message, in order
			if j.Meta != "" && len(errs) == 0 {
				want := strings.Split(j.Meta, "\x00")
				if strings.Join(names, "\x00") != j.Meta {
					report("C06/messages-missing-or-out-of-order", fmt.Sprintf("no error, expected message names %q, got %q", want, names))
				}
				w.Classes["order-checked"]++
			} else if j.Meta != "" {
				report("C06/valid-sequence-rejected", fmt.Sprintf("a generated sequence of valid messages was rejected: %q", errs))
			}
			// (vi) diagnostics read "Ln x, Col y: text" with a position inside the input
			var lens []int
			for _, d := range append(append([]string{}, errs...), warns...) {
				mm := diagRe.FindStringSubmatch(d)
				if mm == nil {
					report("C06/diagnostic-format", fmt.Sprintf("diagnostic %q does not read 'Ln x, Col y: text'", d))
					break
				}
				if lens == nil {
					lens = lineLengths(in)
				}
				var ln, col int
				fmt.Sscan(mm[1], &ln)
				fmt.Sscan(mm[2], &col)
				if ln < 1 || ln > len(lens) || col < 1 || col > lens[ln-1]+1 {
					report("C06/diagnostic-position-outside-input", fmt.Sprintf("diagnostic %q: the input has %d lines, line %d has %d characters", d, len(lens), ln, func() int {
						if ln >= 1 && ln <= len(lens) {
							return lens[ln-1]
						}
						return -1
					}()))
					break
				}
				shape := diagShape(d[len(mm[0])-1:])
				if !shapes[shape] {
					shapes[shape] = true
					w.Shapes = append(w.Shapes, shape)
					w.Keep = append(w.Keep, i)
				}
			}
		}
		w.End(i)
	}
	prevMsgs, prevHeaders = nil, nil
	runtime.GC()
	runtime.GC()
	runtime.ReadMemStats(&m1)
	grown := int64(m1.HeapAlloc) - int64(heapBefore)
	w.Max("retained_heap_growth_MiB_over_the_batch", float64(grown)/(1<<20))
	if limit := int64(32<<20) + 2*int64(maxIn); grown > limit && len(w.Jobs) > 0 {
		w.Report(iso.Finding{Index: len(w.Jobs) - 1, Sig: "C06/memory-retained-across-calls", What: fmt.Sprintf("after %d calls and two collections the live heap is %d MiB larger than before the first call (limit 32 MiB + 2 x the longest input, %d bytes): what earlier calls allocated stays reachable", len(w.Jobs), grown>>20, maxIn), Family: w.Jobs[len(w.Jobs)-1].Family})
	}
}

// ---- input generators

// every Unicode White_Space code point, plus three look-alikes that are not white space (U+200B, U+FEFF, U+180E)
var exoticSpaces = []string{"\u0009", "\u000a", "\u000b", "\u000c", "\u000d", "\u0020", "\u0085", "\u00a0", "\u1680", "\u2000", "\u2001", "\u2002", "\u2003", "\u2004", "\u2005", "\u2006", "\u2007", "\u2008", "\u2009", "\u200a", "\u2028", "\u2029", "\u202f", "\u205f", "\u3000", "\u200b", "\ufeff", "\u180e"}

var hostileFragments = []string{
	"\x85", "\xa0", "\xff", "\xc3", "\xe2\x82", "\xf0\x9f", "\x00", "\"", "\"abc", "[", "[1", "[1..", "[..", "]", "[[", "<", ">", "<<", ">>", ".", "..", "...", "....", "...[", "...[1", "...[99999999999999999999]",
	"1e999999999", "1e-999999999", "-", "+", "0x", "0b", "0o", "1e", "1e+", strings.Repeat("9", 5000), "-" + strings.Repeat("9", 400), "0x" + strings.Repeat("F", 300), "0." + strings.Repeat("0", 400) + "1",
	"S99999999999999999999F1", "S1F99999999999999999999", "S0F0", "S128F256", "S-1F1", "SF", "S1F", "S1F1W", "S1F1[W]", "W", "[W]", "[w", "H->E", "H<-", "H<->", "h<->e",
	"[18446744073709551616]", "[9223372036854775807]", "[9223372036854775808]", "[4294967296..]", "[99999999999]", "[3000000000]", "[..99999999999]", "[99999999999..]", "[5..2]", "[ 1 .. 2 ]", "[1...2]", "[-1]", "[0x10]",
	"//", "// comment", "//\n", "/", "/*", "*/", "#", "@", "\\", "'", "`", "é", "漢字", "😀", "\u202e", "T", "F", "t", "TRUE", "L", "A", "B", "BOOLEAN", "F4", "F8", "I1", "I8", "U1", "U8", "l", "a", "X", "x", "x[0]", "x[", "x[1][2]", "_", "_1", "1x", "x.y",
	// characters that the standard library's unicode predicates accept but ASCII tests do not: decimal digits of other scripts,
	// letters, letter-like numbers; alone and next to the characters that start or continue a number/name/size
	"\u0663", "\u0969", "\uff13", "\U0001d7d9", "\u00b2", "\u2167", ".\u0663", "e.\u0663", "E.\uff13", "x.\u0969", "1\u0663", "\u06631", "-\u0663", "0x\u0663", "1e\u0663", "[\u0663]", "[1..\u0663]",
	"S\u0663F1", "S1F\u0663", "x[\u0663]", "...[\u0663]", "\u0663.", ".\u0663.", "\u0131", "\u212a", "\u017f", "\u0130", "\uff37", "\uff33\uff11\uff26\uff11",
	"[\n1\n]", "[1\n..\n2]", "[\r\n2 ..]", "[ \n ]", "\u2c65", "\u2c66", "\u1fbe", "\u0131x", "x\u017f", "//\xff\xff", "//\u0131\n", "//\u2c65", "\ufeff", "\ufeffS1F1", "Name.", "n.", "//a\rb\n", "//a\r<U1 2>\n",
	"//a\n//b\n//c\n", "//\n//\n//\n//\n", " //1\n //2\n //3\n //4\n //5\n", "//x\r\n//y\r\n//z", "[1.", "[.", "[ .", "[1 .", "[..", "[1..2", "[.]", "[1.]", "[1.2]", ".", "1.", "x.", "\"a\".",
	// near-misses of every header token: direction, wait bit, stream/function
	"H-E", "h-e", "H-Equipment", "H>E", "H<E", "H<>E", "H-<E", "H>-E", "H->", "->E", "<-E", "H<-->E", "H--E", "E->H", "E<-H", "E<->H", "H->E->H", "H->Ex", "xH->E", "H->e.", "H<->E<",
	"[W", "W]", "[W]]", "[[W]", "[ W ]", "WW", "Wx", "w.", "[W].", "S1F1.", "S1F", "F1", "S1", "SF1", "S1F1F1", "S1S1F1", "S01F01", "S1F01", "S001F001", "S+1F1", "S1F+1", "S1 F1", "S1F1S2F2", "s1F1", "S1f1", "S127F255", "S127F256", "S128F1", "S1F257", "S1F255",
	"\"\"", "\"a\"", "\"é\"", "\"\\\"", "\"a\nb\"", "\"\n", "0x7F", "0x80", "127", "128", "255", "256", "-1", "1.5", ".5", "5.", "1_000", "0b2", "08", "0o8", "0xG",
}

var itemTypes = []string{"L", "A", "B", "BOOLEAN", "F4", "F8", "I1", "I2", "I4", "I8", "U1", "U2", "U4", "U8"}
var sizeDecls = []string{"", "[1]", "[0]", "[2..3]", "[..2]", "[1..]", "[99999999999]", "[3000000000]", "[4294967296..]", "[18446744073709551616]", "[9223372036854775807]", "[..99999999999]"}

func soup(r *rng.R, maxTok int) string {
	var sb strings.Builder
	n := 1 + r.Intn(maxTok)
	vocab := soupVocab
	for i := 0; i < n; i++ {
		switch r.Intn(10) {
		case 0, 1, 2:
			sb.WriteString(hostileFragments[r.Intn(len(hostileFragments))])
		case 3:
			sb.WriteString(exoticSpaces[r.Intn(len(exoticSpaces))])
		default:
			sb.WriteString(vocab[r.Intn(len(vocab))])
		}
		switch r.Intn(8) {
		case 0:
		case 1:
			sb.WriteString("\n")
		case 2:
			sb.WriteString(exoticSpaces[r.Intn(len(exoticSpaces))])
		default:
			sb.WriteString(" ")
		}
	}
	return sb.String()
}

func mutate(r *rng.R, s string) string {
	b := []byte(s)
	for k := 1 + r.Intn(3); k > 0; k-- {
		if len(b) == 0 {
			b = []byte(hostileFragments[r.Intn(len(hostileFragments))])
			continue
		}
		i := r.Intn(len(b))
		switch r.Intn(7) {
		case 0: // flip
			b[i] ^= 1 << uint(r.Intn(8))
		case 1: // delete a span
			j := i + r.Intn(len(b)-i+1)
			if j-i > 20 {
				j = i + 20
			}
			b = append(b[:i:i], b[j:]...)
		case 2: // duplicate a span
			j := i + r.Intn(len(b)-i+1)
			if j-i > 40 {
				j = i + 40
			}
			b = append(b[:j:j], append(append([]byte{}, b[i:j]...), b[j:]...)...)
		case 3: // splice a hostile fragment
			f := hostileFragments[r.Intn(len(hostileFragments))]
			b = append(b[:i:i], append([]byte(f), b[i:]...)...)
		case 4: // truncate
			b = b[:i]
		case 5: // exotic space
			f := exoticSpaces[r.Intn(len(exoticSpaces))]
			b = append(b[:i:i], append([]byte(f), b[i:]...)...)
		case 6: // replace with random byte
			b[i] = byte(r.Intn(256))
		}
	}
	return string(b)
}

func validText(r *rng.R, tagged bool, k int) (string, string) {
	g := gen.New(r, gen.Profile{MaxDepth: 1 + r.Intn(3), Vars: r.Bool(), Ellipsis: r.Chance(1, 4), Budget: 100, MaxKids: 3, MaxElems: 4})
	var toks []smltext.Tok
	var names []string
	var prev *ref.Msg
	for q := 0; q < k; q++ {
		var it *ref.Item
		if !r.Chance(1, 6) {
			it = g.Tree()
		}
		m := g.Msg(it, false)
		if r.Chance(1, 4) {
			m.Dir = "" // an omitted direction is a warning, not an error
		}
		if prev != nil && r.Chance(1, 3) {
			// a header that stands in a relation to the one before it: the reply to that primary, the same code again, the
			// next primary of the stream - with every combination of given and omitted directions
			m.Stream = prev.Stream
			switch r.Intn(3) {
			case 0:
				if prev.Function < 255 {
					m.Function = prev.Function + 1
				}
			case 1:
				m.Function = prev.Function
			default:
				if prev.Function < 254 {
					m.Function = prev.Function + 2
				}
			}
			if m.Function%2 == 0 && m.W == 1 {
				m.W = r.Intn(2) * 2
			}
			if r.Bool() {
				m.Dir = prev.Dir
			}
		}
		prev = m
		if tagged {
			m.Name = fmt.Sprintf("tag_%d_%d", q, r.Intn(1000))
		}
		names = append(names, m.Name)
		st := &smltext.NumStyle{R: r, Variety: r.Bool()}
		toks = append(toks, smltext.MsgToks(st, m, r.Bool())...)
	}
	lead, gaps, _ := smltext.Layout(r, toks, smltext.LayoutOpts{AddOptional: true, Comments: r.Chance(1, 3), FinalNoEOL: true})
	return smltext.Render(toks, lead, gaps, smltext.CaseSpelling(r, toks)).Text, strings.Join(names, "\x00")
}

func c06Recipe(recipe string) string {
	var kind string
	var a int
	fmt.Sscanf(recipe, "%s %d", &kind, &a)
	switch kind {
	case "nest-unclosed":
		return "S1F1 W" + strings.Repeat("\n<L", a)
	case "nest-closed":
		return "S1F1 W" + strings.Repeat("\n<L", a) + strings.Repeat(">", a) + "\n."
	}
	return ""
}

// c06ConcurrentBatches: batches of eight texts for the workers' concurrent mode. What a package learns on first sight
// it learns early in the life of a process, so these run in many fresh worker processes, two batches each.
func c06ConcurrentBatches(r *rng.R, n int) []iso.Job {
	var jobs []iso.Job
	for b := 0; b < n; b++ {
		var texts []string
		for k := 0; k < 8; k++ {
			sp := func(w string) string {
				bs := []byte(w)
				for q := range bs {
					if r.Bool() && bs[q] >= 'A' && bs[q] <= 'Z' {
						bs[q] += 32
					}
				}
				return string(bs)
			}
			texts = append(texts, fmt.Sprintf("%s %s H->E n%d_%d\n<%s\n  <%s[ %d ] v%d_%d>\n  <%s %s %s>\n  <%s %d>\n  <%s 1.5>\n  <%s 0x%x>\n  <%s 1> <%s -1> <%s 2> <%s 3> <%s 4>\n  x%d_%d ...>\n.", sp("S1F1"), sp("W"), b, k, sp("L"), sp("A"), 3+k, b, k, sp("BOOLEAN"), sp("T"), sp("F"), sp("U4"), b*8+k, sp("F8"), sp("B"), k, sp("U1"), sp("I2"), sp("U2"), sp("I8"), sp("F4"), b, k))
		}
		jobs = append(jobs, iso.Job{Input: []byte(strings.Join(texts, "\x00")), Family: "concurrent-batch"})
	}
	return jobs
}

func c06InitialJobs(c *ctx, r *rng.R) []iso.Job {
	var jobs []iso.Job
	add := func(fam, s, meta string) { jobs = append(jobs, iso.Job{Input: []byte(s), Family: fam, Meta: meta}) }
	// systematic: duplicate variables of every type under every size declaration
	for _, t := range itemTypes {
		for _, sz := range sizeDecls {
			add("duplicate-variable", fmt.Sprintf("S1F1 W\n<L\n  <%s%s dup>\n  <%s%s dup>\n>\n.", t, sz, t, sz), "")
			add("duplicate-variable", fmt.Sprintf("S1F1 W <L <%s %s dup dup>> .", t, sz), "")
			add("sized-items", fmt.Sprintf("S1F1 W <%s%s> .", t, sz), "")
			add("sized-items", fmt.Sprintf("S1F1 W <%s %s 1 x \"s\" T> .", t, sz), "")
		}
	}
	// message names / header positions made of each exotic space
	for _, sp := range exoticSpaces {
		for _, tmpl := range []string{"S1F1 %s .", "S1F1 H->E %s .", "S1F1 W H->E %s\n<L>\n.", "S1F1 W %s <L> .", "%sS1F1 .", "S1F1%s.", "S1F1 W <L%s> .", "S1F1 W <A %s> .", "S1F1 W <A \"%s\"> .", "S1F1 //%s\n.", "S1F1 n%sm .", "S1F1 [W] %s%s ."} {
			add("exotic-space", strings.ReplaceAll(tmpl, "%s", sp), "")
		}
	}
	// every hostile fragment in every structural position
	for _, f := range hostileFragments {
		for _, tmpl := range []string{"%s", "S1F1 %s", "S1F1 W %s .", "S1F1 W H->E name %s .", "S1F1 W <%s> .", "S1F1 W <L %s> .", "S1F1 W <A %s> .", "S1F1 W <U1 %s> .", "S1F1 W <U1%s 1> .", "S1F1 W <L <B 1> %s <B 2>> .", "S1F1 W <L <B 1>> %s", "S1F1 W <L> . %s S2F2 .", "S1F1 <L> .%s", "S1F1 W <L <A \"x\">>.%s", "S1F1 <A e%s>.", "S1F1 <A %s>.", "S1F1 W <U1 1%s> .", "S1F1 W <L%s <A x>\n<B 300>\n> .\nS2F2 <U1 256> .", "%s\nS1F1 W H->E n <L> .\n", "S1F1 W %s H->E n <L> .\n", "S1F1 W H->E n%s <L> .\n"} {
			add("hostile-fragment", strings.Replace(tmpl, "%s", f, 1), "")
		}
	}
	// nesting
	for _, d := range []int{10, 100, 1000, 3000} {
		add("nesting", c06Recipe(fmt.Sprintf("nest-closed %d", d)), "")
	}
	for _, d := range []int{10, 1000, c.pick(20000, 100000)} {
		add("nesting", c06Recipe(fmt.Sprintf("nest-unclosed %d", d)), "")
	}
	// texts with thousands of diagnostics (every one reads "Ln x, Col y: text", however many there are)
	for _, n := range []int{999, 1000, 1001, 1500, 4097, c.pick(5000, 20000)} {
		add("thousands-of-diagnostics", "S1F1 W H->E <U1 "+strings.Repeat("256 ", n)+"> .", "")
		add("thousands-of-diagnostics", strings.Repeat("S1F1 W .\n", n), "")
		add("thousands-of-diagnostics", strings.Repeat("S1F1 W .\n", n)+"S2F2 <I1 "+strings.Repeat("999 ", n/2)+"> .", "")
		add("thousands-of-diagnostics", "S1F1 W H->E <L "+strings.Repeat("<A 200> ", n)+"> .", "")
	}
	// texts parsed at the same moment by several goroutines of one worker process: keyword spellings, names and sizes no
	// earlier call has seen (whatever the package learns on first sight, it learns under concurrency here)
	for b := 0; b < 0; b++ { // (concurrent batches run in their own fresh worker processes, see c06ConcurrentBatches)
		var texts []string
		for k := 0; k < 8; k++ {
			sp := func(w string) string {
				bs := []byte(w)
				for q := range bs {
					if r.Bool() && bs[q] >= 'A' && bs[q] <= 'Z' {
						bs[q] += 32
					}
				}
				return string(bs)
			}
			texts = append(texts, fmt.Sprintf("%s W H->E n%d_%d\n<%s\n  <%s[ %d ] v%d_%d>\n  <%s T F>\n  <%s %d>\n  <%s 1.5>\n  <%s 0x%x>\n  x%d_%d ...>\n.", sp("S1F1"), b, k, sp("L"), sp("A"), 3+k, b, k, sp("BOOLEAN"), sp("U4"), b*8+k, sp("F8"), sp("B"), k, b, k))
		}
		add("concurrent-batch", strings.Join(texts, "\x00"), "")
	}
	// nests that carry something at the bottom or beside every level: a variable of each kind, an ellipsis, an error
	// (work per level that depends on what the subtree holds adds up; hook H4 counts it)
	for _, d := range []int{8, 16, 20, 24, 28, 32, 48, 64, 100, c.pick(200, 1000)} {
		for _, bottom := range []string{"<U1 x>", "x", "<A[1..3] x>", "<L <B 1> ...>", "<U1 300>", "<BOOLEAN T v w>", "<F4 1.5> y", "<L[3]>"} {
			for _, beside := range []string{"", "<U1 7>", "v%d"} {
				var sb strings.Builder
				sb.WriteString("S1F1 W H->E ")
				for i := 0; i < d; i++ {
					sb.WriteString("<L ")
					if beside != "" && i > 0 {
						if strings.Contains(beside, "%d") {
							fmt.Fprintf(&sb, beside+" ", i)
						} else {
							sb.WriteString(beside + " ")
						}
					}
				}
				sb.WriteString(bottom)
				sb.WriteString(strings.Repeat(">", d))
				sb.WriteString(" .")
				add("nest-with-content", sb.String(), "")
			}
		}
	}
	n := c.pick(90000, 900000)
	maxLen := c.pick(64<<10, 1<<20)
	for i := 0; i < n; i++ {
		switch i % 6 {
		case 0, 1:
			add("token-soup", soup(r, 25), "")
		case 2:
			t, meta := validText(r, true, 1+r.Intn(4))
			add("valid-sequence", t, meta)
		case 3, 4:
			t, _ := validText(r, false, 1+r.Intn(2))
			add("mutated-valid", mutate(r, t), "")
		case 5:
			add("random-bytes", string(r.Bytes(r.Intn(200))), "")
		}
	}
	// a few large inputs
	for i := 0; i < c.pick(6, 40); i++ {
		var sb strings.Builder
		for sb.Len() < maxLen/c.pick(4, 1) {
			if r.Bool() {
				t, _ := validText(r, false, 2)
				sb.WriteString(t)
			} else {
				sb.WriteString(soup(r, 30))
			}
			sb.WriteString("\n")
		}
		add("large", sb.String(), "")
	}
	return jobs
}

func c06CaseOf(j iso.Job) c06Case {
	cs := c06Case{Family: j.Family, Len: len(j.Input), Meta: j.Meta}
	if len(j.Input) <= 8192 {
		cs.Quoted = fmt.Sprintf("%q", string(j.Input))
	} else {
		cs.Quoted = fmt.Sprintf("%q", string(j.Input[:2000])) + "…(truncated; regenerate with the run's seed)"
	}
	if strings.HasPrefix(j.Family, "deep-nesting-probe") {
		cs.Recipe = j.Meta
		cs.Meta = ""
	}
	return cs
}

var shapeMu sync.Mutex
var shapeSet = map[string]int{}

func c06RunPool(c *ctx, exe, work string, round int, jobs []iso.Job, nw int, vmemKB int) []int {
	perm := c.rnd.Derive(uint64(100 + round)).Perm(len(jobs))
	slots := make([][]iso.Job, nw)
	idx := make([][]int, nw)
	for i, p := range perm {
		slots[i%nw] = append(slots[i%nw], jobs[p])
		idx[i%nw] = append(idx[i%nw], p)
	}
	outs := make([]iso.Outcome, nw)
	var wg sync.WaitGroup
	for s := 0; s < nw; s++ {
		if len(slots[s]) == 0 {
			continue
		}
		wg.Add(1)
		go func(s int) {
			defer wg.Done()
			outs[s] = iso.Run(iso.Options{Exe: exe, Kind: "sml", Dir: filepath.Join(work, fmt.Sprintf("r%dw%d", round, s)), VMemKB: vmemKB, Watchdog: 25 * time.Minute, MaxRestart: 30}, slots[s])
		}(s)
	}
	wg.Wait()
	var keep []int
	for s, o := range outs {
		c.Eval(int64(o.Processed))
		for k, v := range o.Summary.Classes {
			c.ClassN(k, v)
		}
		for k, v := range o.Summary.Maxima {
			c.Max(k, v)
		}
		for _, sh := range o.Summary.Shapes {
			shapeMu.Lock()
			shapeSet[sh]++
			shapeMu.Unlock()
		}
		for _, k := range o.Summary.Keep {
			if k < len(idx[s]) {
				keep = append(keep, idx[s][k])
			}
		}
		for _, f := range o.Findings {
			c.Violation(f.Sig, f.What, c06CaseOf(slots[s][f.Index]))
		}
		for _, a := range o.Aborts {
			j := slots[s][a.Index]
			c.Class("worker-abort/" + a.Kind)
			if a.Kind == "watchdog" {
				c.Inconclusive(fmt.Sprintf("watchdog expired on a %d-byte %s input", len(j.Input), j.Family))
				continue
			}
			c.Violation("C06/abort/"+a.Kind+"/"+j.Family, fmt.Sprintf("worker process aborted (%s) while parsing a %d-byte input: %s", a.Kind, len(j.Input), firstLines(a.Stderr, 3)), c06CaseOf(j))
		}
		for _, m := range o.Incon {
			c.Inconclusive(m)
		}
	}
	return keep
}

func runC06(c *ctx) {
	c.Rule = "inputs run in child worker processes (ulimit -v 2 GiB, watchdog). Oracle per call: no panic escapes sml.Parse; the worker does not abort (out of memory, stack overflow, deadlock); the logical step counters of hook H2 stay within linear budgets (lexer.next <= 64*len+1024, state functions <= 8*len+256, parser.peek <= 64*len+1024); errors and messages are never returned together; generated sequences of k valid tagged messages are returned complete and in order; every diagnostic reads 'Ln x, Col y: text' with a position that is a character position of the input or its end. Inputs: systematic (duplicate variables of every type under 12 size declarations incl. absurd ones, 27 exotic spaces in 12 positions, 150 hostile fragments in 12 structural positions, nesting closed to 3000 and unclosed to 20000/100000), token soups, valid sequences, byte/span mutations of valid texts, random bytes, large inputs; two further rounds mutate the inputs that produced a new diagnostic shape (coverage signal). non-trivial = the input reaches the item parser or produces a diagnostic; distinct by input hash Also (rounds 6-8): hook H4 (list walks in package ast, budget 100000+2*len^2); nests with a variable/ellipsis/error at the bottom or beside every level; thousands of diagnostics in one text; header near-misses; per worker: the previous successful result re-read after the next call, live heap after two collections before and after the batch (32 MiB + 2 x longest input), a one-process run of 220/600 inputs of 256-512 KiB with fresh names, batches of eight texts parsed at the same moment by eight goroutines. Also (round 9): generated sequences omit the direction now and then and continue the header before them (same stream, function +1/+0/+2, same direction)."
	c.Assume = []string{"hook H2 (pkg/parser/sml/verif_on.go, build tag verif) counts lexer.next, state-function and parser.peek calls of one Parse", "2 GiB address-space limit: a 1 MiB input legitimately needs < 300 MB"}

	exe, _ := os.Executable()
	work := filepath.Join(c.Root, "work", fmt.Sprintf("C06.%d", os.Getpid()))
	os.RemoveAll(work)
	os.MkdirAll(work, 0o755)
	defer os.RemoveAll(work)
	nw := runtime.NumCPU() - 2
	if nw < 2 {
		nw = 2
	}

	// the deep-nesting probe (finding K1) runs alongside in its own worker
	var probeWG sync.WaitGroup
	var probeOut iso.Outcome
	depth, maxStack := 1100000, 0
	if !c.thorough {
		// quick tier: the same recursion against a quarter of the default stack limit
		depth, maxStack = 300000, 250000000
	}
	probeRecipe := fmt.Sprintf("nest-unclosed %d", depth)
	probe := []iso.Job{{Input: []byte(c06Recipe(probeRecipe)), Family: "deep-nesting-probe", Meta: probeRecipe}}
	probeWG.Add(1)
	go func() {
		defer probeWG.Done()
		o := iso.Options{Exe: exe, Kind: "sml", Dir: filepath.Join(work, "probe"), VMemKB: 6 << 20, Watchdog: 40 * time.Minute, MaxRestart: 1}
		if maxStack > 0 {
			o.ExtraArgs = []string{fmt.Sprintf("maxstack=%d", maxStack)}
		}
		probeOut = iso.Run(o, probe)
	}()

	r := c.rnd.Derive(1)
	jobs := c06InitialJobs(c, r)
	seen := map[uint64]bool{}
	account := func(js []iso.Job) {
		for _, j := range js {
			s := string(j.Input)
			nt := strings.Contains(s, "<") || !utf8.ValidString(s) || len(s) > 0
			h := rng.Hash64(j.Input)
			if !seen[h] {
				seen[h] = true
			}
			c.Note(h, nt)
		}
		c.Eval(-int64(len(js)))
	}
	account(jobs)
	keep := c06RunPool(c, exe, work, 0, jobs, nw, 2<<20)
	// coverage-guided rounds: mutate the inputs that produced a new diagnostic shape
	for round := 1; round <= 2; round++ {
		var next []iso.Job
		per := c.pick(20, 200)
		for _, k := range keep {
			src := string(jobs[k].Input)
			if len(src) > 4096 {
				continue
			}
			for q := 0; q < per; q++ {
				next = append(next, iso.Job{Input: []byte(mutate(r, src)), Family: "coverage-guided"})
			}
		}
		if max := c.pick(1500, 15000); len(keep) > max {
			keep = keep[:max]
		}
		c.ClassN(fmt.Sprintf("seeds-kept/round%d", round), int64(len(keep)))
		if len(next) == 0 {
			break
		}
		account(next)
		keep = c06RunPool(c, exe, work, round, next, nw, 2<<20)
		jobs = next
	}

	// concurrent batches in fresh worker processes (several pools of 16 processes, two batches per process)
	for pool := 0; pool < c.pick(6, 30); pool++ {
		cj := c06ConcurrentBatches(r, 32)
		account(cj)
		c06RunPool(c, exe, work, 800+pool, cj, 16, 2<<20)
	}
	// a long run in ONE worker process: hundreds of sizeable inputs, each with variable names no earlier input used, and
	// interleaved small valid texts whose results are re-read after the next call (what the package remembers between
	// calls must stay bounded, and must not be what it has handed out)
	{
		var hist []iso.Job
		pad := strings.Repeat("x", c.pick(256<<10, 512<<10))
		for i := 0; i < c.pick(220, 600); i++ {
			t := fmt.Sprintf("S6F11 W H->E run%d\n<L\n  <U4 fresh_%d_a>\n  <A \"%s\">\n  <L <F4 fresh_%d_b> other_%d ...>\n> .\n", i, i, pad, i, i)
			hist = append(hist, iso.Job{Input: []byte(t), Family: "long-run-in-one-process", Meta: fmt.Sprintf("run%d", i)})
			small := fmt.Sprintf("S1F%d W H->E first%d <L <U1 %d>> .\nS2F%d H<-E second%d .", 2*(i%100)+1, i, i%256, 2*(i%50), i)
			hist = append(hist, iso.Job{Input: []byte(small), Family: "long-run-in-one-process", Meta: fmt.Sprintf("first%d\x00second%d", i, i)})
		}
		account(hist)
		c06RunPool(c, exe, work, 900, hist, 1, 4<<20)
	}
	probeWG.Wait()
	c.Eval(int64(probeOut.Processed))
	for _, f := range probeOut.Findings {
		c.Violation(f.Sig+"/deep-nesting-probe", f.What, c06CaseOf(probe[0]))
	}
	for _, a := range probeOut.Aborts {
		c.Class("worker-abort/" + a.Kind)
		if a.Kind == "watchdog" {
			c.Inconclusive("watchdog expired on the deep-nesting probe")
			continue
		}
		c.Violation("C06/abort/"+a.Kind+"/deep-nesting-probe", fmt.Sprintf("worker process aborted (%s) while parsing %d nested '<L' (%d bytes, max stack %d): %s", a.Kind, depth, len(probe[0].Input), maxStack, firstLines(a.Stderr, 3)), c06CaseOf(probe[0]))
	}
	for _, m := range probeOut.Incon {
		c.Inconclusive(m)
	}
	for i := 0; i < 8; i++ {
		j := jobs[(i*7919)%len(jobs)]
		if len(j.Input) < 300 {
			c.Sample(map[string]interface{}{"family": j.Family, "input": fmt.Sprintf("%q", string(j.Input))})
		}
	}
	c.Sample(map[string]interface{}{"family": "deep-nesting-probe", "recipe": probeRecipe})
	var shapeList []string
	for sh := range shapeSet {
		shapeList = append(shapeList, sh)
	}
	sort.Strings(shapeList)
	c.Extra["distinct_diagnostic_shapes"] = len(shapeList)
	if len(shapeList) > 120 {
		shapeList = shapeList[:120]
	}
	c.Extra["diagnostic_shapes"] = shapeList
	c.Required = []string{"family/token-soup", "family/valid-sequence", "family/mutated-valid", "family/random-bytes", "family/duplicate-variable", "family/exotic-space", "family/hostile-fragment", "family/nesting", "family/nest-with-content", "family/coverage-guided", "family/long-run-in-one-process", "family/thousands-of-diagnostics", "family/concurrent-batch", "earlier-result-re-read", "hook-reached", "hook-H4-reached", "accepted", "rejected", "order-checked"}
}

func replayC06(c *ctx, raw json.RawMessage) {
	var cs c06Case
	if json.Unmarshal(raw, &cs) != nil {
		return
	}
	var in string
	if cs.Recipe != "" {
		in = c06Recipe(cs.Recipe)
	} else {
		fmt.Sscanf(cs.Quoted, "%q", &in)
	}
	exe, _ := os.Executable()
	work, _ := os.MkdirTemp("", "c06replay")
	defer os.RemoveAll(work)
	jobs := []iso.Job{{Input: []byte(in), Family: cs.Family, Meta: cs.Meta}}
	o := iso.Run(iso.Options{Exe: exe, Kind: "sml", Dir: work, VMemKB: 6 << 20, Watchdog: 40 * time.Minute, MaxRestart: 1}, jobs)
	for _, f := range o.Findings {
		c.Violation(f.Sig, f.What, cs)
	}
	for _, a := range o.Aborts {
		c.Violation("C06/abort/"+a.Kind+"/"+cs.Family, "worker aborted: "+firstLines(a.Stderr, 3), cs)
	}
}
