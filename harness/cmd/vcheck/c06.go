package main

import "verifharness/internal/iso"

func smlWorker(w *iso.Worker) {}
