package main

import (
	"bytes"
	"encoding/json"
	"fmt"
	"math"
	"math/big"
	"strconv"
	"strings"

	"verifharness/internal/gen"
	"verifharness/internal/real"
	"verifharness/internal/ref"
	"verifharness/internal/rng"
	"verifharness/internal/smltext"
)

// C05 — SML literals denote exactly the stored values (no silent substitution).

type c05Case struct {
	Class string     `json:"class"` // valid | invalid | unspecified
	Text  string     `json:"text"`
	Msg   *ref.Msg   `json:"expected,omitempty"`     // valid: the message the text denotes
	Alts  []*ref.Msg `json:"alternatives,omitempty"` // unspecified: the plausible readings
	Note  string     `json:"note,omitempty"`         // which literal / why
}

func init() { register("C05", "exploration", runC05, replayC05) }

// denotes reports whether a parsed message denotes the model message.
func denotes(p real.MsgSnap, m *ref.Msg, complete func() []byte) string {
	ws := []string{"false", "true", "optional"}[m.W]
	switch {
	case p.Stream != m.Stream || p.Function != m.Function:
		return fmt.Sprintf("S%dF%d want S%dF%d", p.Stream, p.Function, m.Stream, m.Function)
	case p.WaitBit != ws:
		return fmt.Sprintf("wait bit %s want %s", p.WaitBit, ws)
	case p.Direction != m.Dir:
		return fmt.Sprintf("direction %s want %s", p.Direction, m.Dir)
	case p.Name != m.Name:
		return fmt.Sprintf("name %q want %q", p.Name, m.Name)
	}
	var wv []string
	if m.Item != nil {
		wv = m.Item.Vars()
	}
	if !real.EqStrs(ref.NormEllipsis(p.Vars), ref.NormEllipsis(wv)) {
		return fmt.Sprintf("variables %q want %q", p.Vars, wv)
	}
	if d := ref.MatchPrinted(p.Str, ref.MsgSegs(m)); d != "" {
		return d
	}
	if len(wv) == 0 && complete != nil {
		t := *m
		t.Session = 9
		t.Sys = [4]byte{4, 3, 2, 1}
		if t.W == 2 {
			t.W = 0
		}
		if got := complete(); !bytes.Equal(got, ref.EncodeMessage(&t)) {
			return fmt.Sprintf("completed bytes %x want %x", clipB(got), clipB(ref.EncodeMessage(&t)))
		}
	}
	return ""
}

func c05Eval(c *ctx, cs c05Case) {
	msgs, errs, _, o := smlParse(cs.Text)
	nonCanon := cs.Note != "" && cs.Note != "canonical"
	c.Note(rng.HashStr(cs.Text), nonCanon)
	c.Class("class/" + cs.Class)
	if o.Panicked {
		c.Violation("C05/parser-panicked", o.String()+" text="+clipS(cs.Text), cs)
		return
	}
	if len(errs) > 0 && len(msgs) > 0 {
		c.Violation("C05/messages-returned-with-errors", fmt.Sprintf("%d messages, errors %q", len(msgs), errs), cs)
		return
	}
	match := func(m *ref.Msg) string {
		if len(msgs) != 1 {
			return fmt.Sprintf("%d messages", len(msgs))
		}
		p := msgs[0]
		return denotes(real.Snap(p), m, func() []byte {
			var b []byte
			real.Try(func() { b = p.SetWaitBit(false).SetSessionIDAndSystemBytes(9, []byte{4, 3, 2, 1}).ToBytes() })
			return b
		})
	}
	switch cs.Class {
	case "valid":
		if len(errs) > 0 {
			c.Violation("C05/valid-literal-rejected/"+cs.Note, fmt.Sprintf("errors %q for text %q", errs, clipS(cs.Text)), cs)
			return
		}
		if d := match(cs.Msg); d != "" {
			c.Violation("C05/stored-value-differs/"+cs.Note, d+" text="+clipS(cs.Text), cs)
			return
		}
		if c.WantSample() && nonCanon && len(cs.Text) < 200 {
			c.Sample(map[string]interface{}{"class": "valid", "text": cs.Text, "denotes": ref.PrintMsg(cs.Msg)})
		}
	case "invalid":
		if len(errs) == 0 {
			got := ""
			if len(msgs) > 0 {
				got = msgs[0].String()
			}
			c.Violation("C05/unrepresentable-literal-accepted/"+cs.Note, fmt.Sprintf("no error for text %q; parsed as %q", clipS(cs.Text), clipS(got)), cs)
			return
		}
		if c.WantSample() && len(cs.Text) < 160 && rng.HashStr(cs.Text)%7 == 0 {
			c.Sample(map[string]interface{}{"class": "invalid", "why": cs.Note, "text": cs.Text, "errors": errs})
		}
	case "unspecified":
		if len(errs) > 0 {
			c.Class("unspecified/rejected")
			return
		}
		c.Class("unspecified/accepted")
		for _, alt := range cs.Alts {
			if match(alt) == "" {
				return
			}
		}
		got := ""
		if len(msgs) > 0 {
			got = msgs[0].String()
		}
		c.Violation("C05/third-value/"+cs.Note, fmt.Sprintf("text %q parsed as %q, none of the plausible readings", clipS(cs.Text), clipS(got)), cs)
	}
}

func render(r *rng.R, toks []smltext.Tok, fancy bool) string {
	if !fancy {
		return smltext.Render(toks, "", smltext.Canonical(toks), nil).Text
	}
	lead, gaps, _ := smltext.Layout(r, toks, smltext.LayoutOpts{AddOptional: true})
	return smltext.Render(toks, lead, gaps, smltext.CaseSpelling(r, toks)).Text
}

var pow20 = new(big.Int).Exp(big.NewInt(10), big.NewInt(20), nil)
var pow400 = new(big.Int).Exp(big.NewInt(10), big.NewInt(400), nil)

// badLiterals returns tokens that the item kind cannot represent, with a label.
func badLiterals(k ref.Kind) [][2]string {
	w := k.Width()
	var out [][2]string
	add := func(label, tok string) { out = append(out, [2]string{label, tok}) }
	switch {
	case k.IsInt():
		lo, hi := gen.IntBounds(w)
		add("int/max+1", new(big.Int).Add(big.NewInt(hi), big.NewInt(1)).String())
		add("int/min-1", new(big.Int).Sub(big.NewInt(lo), big.NewInt(1)).String())
		add("int/max+1-hex", "0x"+new(big.Int).Add(big.NewInt(hi), big.NewInt(1)).Text(16))
		add("int/min-1-bin", "-0b"+new(big.Int).Add(big.NewInt(hi), big.NewInt(2)).Text(2))
		add("int/1e20", pow20.String())
		add("int/-1e20", "-"+pow20.String())
		add("int/1e400", pow400.String())
		add("int/fraction", "1.5")
		add("int/fraction-neg", "-0.25")
		add("int/bool", "T")
		add("int/string", `"12"`)
		add("int/bare-prefix", "0x")
		add("int/bare-exponent", "1e")
		add("int/lone-sign", "-")
		add("int/bare-bin", "0b")
	case k.IsUint():
		hi := new(big.Int).SetUint64(gen.UintMax(w))
		add("uint/max+1", new(big.Int).Add(hi, big.NewInt(1)).String())
		add("uint/max+1-hex", "0x"+new(big.Int).Add(hi, big.NewInt(1)).Text(16))
		add("uint/negative", "-1")
		add("uint/negative-hex", "-0x10")
		add("uint/1e20", pow20.String())
		add("uint/1e400", pow400.String())
		add("uint/fraction", "2.5")
		add("uint/bool", "F")
		add("uint/string", `"7"`)
		add("uint/bare-prefix", "0X")
		add("uint/bare-exponent", "3e")
	case k == ref.B:
		add("binary/256", "256")
		add("binary/256-hex", "0x100")
		add("binary/256-bin", "0b100000000")
		add("binary/negative", "-1")
		add("binary/1e20", pow20.String())
		add("binary/fraction", "1.5")
		add("binary/bare-prefix", "0x")
		add("binary/bare-bin", "0b")
		add("binary/bare-exponent", "1e")
		add("binary/bool", "T")
		add("binary/string", `"a"`)
	case k == ref.BOOLEAN:
		add("boolean/number-1", "1")
		add("boolean/number-0", "0")
		add("boolean/string", `"T"`)
		add("boolean/float", "1.0")
	case k == ref.F4:
		add("f4/overflow", "1e39")
		add("f4/overflow-neg", "-3.5e38")
		add("f4/overflow-huge", "1e999999")
		add("f4/overflow-digits", "4"+strings.Repeat("0", 38))
		add("f4/bool", "T")
		add("f4/string", `"1.0"`)
		add("f4/bare-exponent", "1e")
		add("f4/bare-exponent-sign", "1e+")
	case k == ref.F8:
		add("f8/overflow", "1e309")
		add("f8/overflow-neg", "-1.8e308")
		add("f8/overflow-huge", "1e999999")
		add("f8/bool", "F")
		add("f8/string", `"x"`)
		add("f8/bare-exponent", "2.5E")
	case k == ref.A:
		add("ascii/code-128", "128")
		add("ascii/code-255", "0xFF")
		add("ascii/code-256", "256")
		add("ascii/code-negative", "-1")
		add("ascii/code-fraction", "65.5")
		add("ascii/code-1e20", pow20.String())
		add("ascii/bool", "T")
		add("ascii/non-ascii-latin", `"é"`)
		add("ascii/non-ascii-cjk", `"漢"`)
		add("ascii/non-ascii-mixed", `"ab`+"\u00a0"+`cd"`)
		add("ascii/invalid-utf8", "\"a\xffb\"")
		add("ascii/bare-prefix", "0x")
	}
	// a based literal whose digits leave the base is one malformed number, not two numbers
	if k.IsInt() || k.IsUint() || k == ref.B || k == ref.A || k.IsFloat() {
		for _, t := range []string{"0b12", "0b102", "0B13", "0b19", "0o78", "0o19", "0O8", "0o7a", "0b1a", "0x1G", "0x1g", "0b1.0", "0o7.5", "1_0", "0b1_0", "12abc", "1x", "0b12e1"} {
			add("digit-outside-the-base/"+t, t)
		}
		if k.IsInt() || k.IsFloat() {
			add("digit-outside-the-base/-0b12", "-0b12")
			add("digit-outside-the-base/+0o78", "+0o78")
		}
	}
	switch {
	case k == ref.L:
		add("list/number-child", "5")
		add("list/bool-child", "T")
		add("list/string-child", `"s"`)
	}
	return out
}

// pickItem chooses a random item of the tree (scalar items and lists).
func allItems(it *ref.Item) []*ref.Item {
	var out []*ref.Item
	var walk func(x *ref.Item)
	walk = func(x *ref.Item) {
		if x.Var != "" {
			return
		}
		out = append(out, x)
		for _, c := range x.Children {
			walk(c)
		}
	}
	walk(it)
	return out
}

func runC05(c *ctx) {
	c.Rule = "texts are generated from values: every item type x literal forms (decimal/hex/octal/binary in either case with sign, shortest/exact/exponent decimal floats, quoted runs and character codes in four bases, T/F, variables), rendered in random layouts and letter case -> class valid: the parsed message must denote exactly the generating model (types, order, values by printed form and by encoded bytes, variables). class invalid: one literal of a valid text replaced (or one added) by a literal its item type cannot represent (beyond each boundary, 1e20, 1e400, fraction, wrong kind, malformed, non-ASCII) -> an error and no message. class unspecified (low weight): representable value in an undocumented form -> an error or one of the plausible readings, never a third value. non-trivial = some literal is not in canonical decimal form, or the case is invalid/unspecified; distinct by text Also (rounds 5-8): plain decimals of 15-32 digits around 2^53..2^64; based literals whose digits leave the base; arbitrary identifiers as variable names; several messages with the same header and different literals. Also (round 10): literals in nests 6-16 lists deep with elements before and after every child list and three sibling lists on the lowest levels."
	c.Assume = []string{"texts go from value to text, never the reverse; expected values are the generator's own", "undocumented forms (leading zero, + on unsigned, hex integers in floats, 5. or 1e1 in integer items, raw control characters in quotes) are classed unspecified"}

	n := c.pick(120000, 1200000)
	c.parallel(n, func(i int, r *rng.R) {
		g := gen.New(r, gen.Profile{MaxDepth: 1 + r.Intn(3), Vars: i%3 == 0, Ellipsis: i%9 == 0, Budget: 200, MaxKids: 4, MaxElems: 6, Boundary: i%40 == 0})
		it := g.Tree()
		m := g.Msg(it, false)
		m.Session = -1
		nonCanon := 0
		st := &smltext.NumStyle{R: r, Variety: i%5 != 0, NonCanon: &nonCanon}
		switch {
		case i%2 == 0:
			// valid
			mm := *m
			if r.Chance(1, 5) {
				mm.Dir = ""
			}
			toks := smltext.MsgToks(st, &mm, r.Bool())
			if mm.Dir == "" {
				mm.Dir = "H<->E"
			}
			note := "canonical"
			if nonCanon > 0 {
				note = "varied-forms"
			}
			c05Eval(c, c05Case{Class: "valid", Text: render(r, toks, i%3 != 0), Msg: &mm, Note: note})
		default:
			// invalid: one unrepresentable literal
			items := allItems(it)
			victim := items[r.Intn(len(items))]
			bl := badLiterals(victim.Kind)
			if len(bl) == 0 || victim.AVar != "" {
				return
			}
			bad := bl[r.Intn(len(bl))]
			slot := -1
			if victim.Kind != ref.L && victim.Kind != ref.A && len(victim.Slots) > 0 && r.Chance(3, 4) {
				slot = r.Intn(len(victim.Slots))
			}
			done := false
			st.Replace = func(x *ref.Item, s int) []smltext.Tok {
				if x != victim || s != slot || done {
					return nil
				}
				done = true
				t := smltext.W(bad[1])
				if strings.HasPrefix(bad[1], `"`) {
					t = smltext.B(bad[1])
				}
				return []smltext.Tok{t}
			}
			// no size declarations when a literal is added (the count would be off anyway)
			toks := smltext.MsgToks(st, m, slot >= 0 && r.Bool())
			if !done {
				return
			}
			c05Eval(c, c05Case{Class: "invalid", Text: render(r, toks, i%3 != 0), Note: bad[0]})
		}
	})

	// every kind x every bad literal in every position of arrays of length 1..8
	r := c.rnd.Derive(6)
	g := gen.New(r, gen.Profile{})
	for k := ref.L; k < ref.NKinds; k++ {
		for _, bad := range badLiterals(k) {
			for n := 0; n <= 8; n++ {
				for pos := -1; pos < n; pos++ {
					if pos == -1 && n > 0 && k != ref.A && k != ref.L {
						continue
					}
					it := &ref.Item{Kind: k}
					switch {
					case k == ref.L:
						for j := 0; j < n; j++ {
							it.Children = append(it.Children, g.Scalar(ref.U1))
						}
					case k == ref.A:
						it.Str = g.ASCII(n)
					default:
						for j := 0; j < n; j++ {
							it.Slots = append(it.Slots, g.Value(k))
						}
					}
					done := false
					st := &smltext.NumStyle{R: r, Variety: true}
					st.Replace = func(x *ref.Item, s int) []smltext.Tok {
						if x != it || s != pos || done {
							return nil
						}
						done = true
						if strings.HasPrefix(bad[1], `"`) {
							return []smltext.Tok{smltext.B(bad[1])}
						}
						return []smltext.Tok{smltext.W(bad[1])}
					}
					m := g.Msg(it, false)
					toks := smltext.MsgToks(st, m, false)
					if done {
						c.Class("systematic-position")
						c05Eval(c, c05Case{Class: "invalid", Text: render(r, toks, false), Note: bad[0]})
					}
				}
			}
		}
	}

	// boundaries: both boundaries of every integer type in every base must be stored exactly
	for _, k := range []ref.Kind{ref.I1, ref.I2, ref.I4, ref.I8, ref.U1, ref.U2, ref.U4, ref.U8, ref.B} {
		var vals []*big.Int
		if k.IsInt() {
			lo, hi := gen.IntBounds(k.Width())
			vals = []*big.Int{big.NewInt(lo), big.NewInt(lo + 1), big.NewInt(-1), big.NewInt(0), big.NewInt(1), big.NewInt(hi - 1), big.NewInt(hi)}
		} else {
			hi := uint64(255)
			if k != ref.B {
				hi = gen.UintMax(k.Width())
			}
			vals = []*big.Int{big.NewInt(0), big.NewInt(1), new(big.Int).SetUint64(hi - 1), new(big.Int).SetUint64(hi), new(big.Int).SetUint64(hi/2 + 1)}
		}
		for _, v := range vals {
			abs := new(big.Int).Abs(v)
			sign := ""
			if v.Sign() < 0 {
				sign = "-"
			}
			for _, form := range []string{sign + abs.Text(10), sign + "0x" + abs.Text(16), sign + "0X" + strings.ToUpper(abs.Text(16)), sign + "0b" + abs.Text(2), sign + "0B" + abs.Text(2), sign + "0o" + abs.Text(8), sign + "0O" + abs.Text(8)} {
				it := &ref.Item{Kind: k, Slots: []ref.Slot{{}}}
				if k.IsInt() {
					it.Slots[0].Int = v.Int64()
				} else {
					it.Slots[0].Uint = v.Uint64()
				}
				m := &ref.Msg{Stream: 1, Function: 1, W: 0, Dir: "H->E", Item: it, Session: -1}
				text := fmt.Sprintf("S1F1 H->E\n<%s %s>\n.", k, form)
				c.Class("boundary-in-every-base")
				c05Eval(c, c05Case{Class: "valid", Text: text, Msg: m, Note: "boundary/" + k.String()})
			}
		}
	}

	// decimals just above and below the midpoint of two adjacent floats, with many digits: the stored value is the
	// nearest float of the item's width to the exact decimal (one rounding, not float64 first and then float32)
	c.parallel(c.pick(6000, 100000), func(i int, r *rng.R) {
		k := ref.F4
		if i%4 == 3 {
			k = ref.F8
		}
		prec := uint(600)
		var lo, hi *big.Float
		if k == ref.F4 {
			b := gen.F4Bits(r) &^ 0x80000000
			if b >= 0x7F7FFFFF {
				b = 0x7F7FFFFE - uint32(r.Intn(100))
			}
			lo = new(big.Float).SetPrec(prec).SetFloat64(float64(math.Float32frombits(b)))
			hi = new(big.Float).SetPrec(prec).SetFloat64(float64(math.Float32frombits(b + 1)))
		} else {
			b := gen.F8Bits(r) &^ (1 << 63)
			if b >= 0x7FEFFFFFFFFFFFFF {
				b = 0x7FEFFFFFFFFFFFFE - uint64(r.Intn(100))
			}
			lo = new(big.Float).SetPrec(prec).SetFloat64(math.Float64frombits(b))
			hi = new(big.Float).SetPrec(prec).SetFloat64(math.Float64frombits(b + 1))
		}
		mid := new(big.Float).SetPrec(prec).Add(lo, hi)
		mid.Quo(mid, big.NewFloat(2))
		// nudge by a relative 1e-25 .. 1e-40 up or down (far below half a float64 ulp for F4 midpoints)
		eps := new(big.Float).SetPrec(prec).Quo(mid, new(big.Float).SetPrec(prec).SetFloat64(math.Pow(10, float64(25+r.Intn(16)))))
		up := r.Bool()
		if up {
			mid.Add(mid, eps)
		} else {
			mid.Sub(mid, eps)
		}
		neg := r.Bool()
		if neg {
			mid.Neg(mid)
		}
		text := mid.Text('e', 60)
		if r.Bool() && mid.MantExp(nil) < 200 && mid.MantExp(nil) > -60 {
			text = mid.Text('f', 80)
		}
		// expected: a single rounding of the exact decimal that was written
		exact, _, err := big.ParseFloat(text, 10, 2000, big.ToNearestEven)
		if err != nil {
			return
		}
		var bits uint64
		if k == ref.F4 {
			f, _ := exact.Float32()
			bits = uint64(math.Float32bits(f))
		} else {
			f, _ := exact.Float64()
			bits = math.Float64bits(f)
		}
		it := &ref.Item{Kind: k, Slots: []ref.Slot{{Uint: bits}}}
		m := &ref.Msg{Stream: 2, Function: 3, W: 1, Dir: "H->E", Item: it, Session: -1}
		c.Class("float-near-midpoint")
		c05Eval(c, c05Case{Class: "valid", Text: fmt.Sprintf("S2F3 W H->E <%s %s> .", k, text), Msg: m, Note: "near-midpoint/" + k.String()})
	})

	// plain decimals with 15..32 digits, with and without a point (hand-written digit loops wrap where strconv rounds)
	c.parallel(c.pick(60000, 600000), func(i int, r *rng.R) {
		k := ref.F8
		if i%4 == 3 {
			k = ref.F4
		}
		nd := 15 + r.Intn(18)
		d := make([]byte, nd)
		for j := range d {
			d[j] = byte('0' + r.Intn(10))
		}
		if d[0] == '0' && r.Chance(3, 4) {
			d[0] = byte('1' + r.Intn(9))
		}
		switch r.Intn(5) {
		case 0: // close to a power of two in the integer part
			copy(d, []byte(fmt.Sprint(uint64(1)<<uint(53+r.Intn(11))+uint64(r.Intn(5))-2)))
		case 1: // just above 2^64
			copy(d, []byte("1844674407370955161"))
		}
		text := string(d)
		if r.Chance(2, 3) {
			p := nd - r.Intn(23)
			if p < 0 {
				p = 0
			}
			text = text[:p] + "." + text[p:]
			if p == 0 && r.Bool() {
				text = "0" + text
			}
		}
		switch r.Intn(4) {
		case 0:
			text = "-" + text
		case 1:
			text = "+" + text
		}
		exact, _, err := big.ParseFloat(text, 10, 2000, big.ToNearestEven)
		if err != nil {
			return
		}
		var bits uint64
		if k == ref.F4 {
			f, _ := exact.Float32()
			bits = uint64(math.Float32bits(f))
		} else {
			f, _ := exact.Float64()
			bits = math.Float64bits(f)
		}
		it := &ref.Item{Kind: k, Slots: []ref.Slot{{Uint: bits}}}
		m := &ref.Msg{Stream: 2, Function: 3, W: 1, Dir: "H->E", Item: it, Session: -1}
		c.Class("float-long-plain-decimal")
		c05Eval(c, c05Case{Class: "valid", Text: fmt.Sprintf("S2F3 W H->E <%s %s> .", k, text), Msg: m, Note: "long-plain-decimal/" + k.String()})
	})

	// several messages in one text with the SAME name, stream and function and different literals (a log of repeated
	// events): each holds its own values, all of them come back, in the order written
	c.parallel(c.pick(3000, 30000), func(i int, r *rng.R) {
		g := gen.New(r, gen.Profile{MaxDepth: 2, Budget: 60, MaxKids: 3, MaxElems: 3})
		heads := []*ref.Msg{g.Msg(nil, false), g.Msg(nil, false)}
		var ms []*ref.Msg
		var sb strings.Builder
		for k := 0; k < 3+r.Intn(4); k++ {
			h := *heads[r.Intn(2)]
			h.Item = g.Tree()
			h.Session = -1
			ms = append(ms, &h)
			sb.WriteString(ref.PrintMsg(&h))
			sb.WriteString([]string{"\n", " ", "\n\n", " // next\n"}[r.Intn(4)])
		}
		text := sb.String()
		msgs, errs, _, o := smlParse(text)
		c.Note(rng.HashStr(text), true)
		c.Class("repeated-headers-with-different-literals")
		cs := c05Case{Class: "valid", Text: text, Note: "repeated-headers"}
		if o.Panicked || len(errs) > 0 {
			c.Violation("C05/valid-literal-rejected/repeated-headers", fmt.Sprintf("%s errors %q text %q", o, errs, clipS(text)), cs)
			return
		}
		if len(msgs) != len(ms) {
			c.Violation("C05/messages-lost-or-added/repeated-headers", fmt.Sprintf("%d messages written, %d returned; text %q", len(ms), len(msgs), clipS(text)), cs)
			return
		}
		for k, m := range msgs {
			if d := ref.MatchPrinted(m.String(), ref.MsgSegs(ms[k])); d != "" {
				c.Violation("C05/stored-value-differs/repeated-headers", fmt.Sprintf("message %d of %d: %s; text %q", k, len(ms), d, clipS(text)), cs)
				return
			}
		}
	})

	// round 10: literals at the bottom of nests 6-16 lists deep in which, at every level, elements stand BEFORE and
	// AFTER a child list and several sibling lists of the same level follow one another (what the parser keeps per
	// nesting level while a child list is being read must still be there when the child is done)
	{
		r := c.rnd.Derive(510)
		for depth := 6; depth <= 16; depth++ {
			for shape := 0; shape < 4; shape++ {
				ctr := 0
				leaf := func() *ref.Item {
					ctr++
					switch ctr % 5 {
					case 0:
						return &ref.Item{Kind: ref.A, Str: []byte(fmt.Sprintf("s%d", ctr))}
					case 1:
						return &ref.Item{Kind: ref.I2, Slots: []ref.Slot{{Int: int64(-ctr)}}}
					case 2:
						return &ref.Item{Kind: ref.B, Slots: []ref.Slot{{Uint: uint64(ctr % 256)}}}
					case 3:
						return &ref.Item{Kind: ref.U4, Slots: []ref.Slot{{Uint: uint64(ctr)}, {Uint: uint64(ctr) * 65537}}}
					}
					return &ref.Item{Kind: ref.U1, Slots: []ref.Slot{{Uint: uint64(ctr % 256)}}}
				}
				var nest func(d int) *ref.Item
				nest = func(d int) *ref.Item {
					if d == 0 {
						return &ref.Item{Kind: ref.L, Children: []*ref.Item{leaf()}}
					}
					wide := d <= 2+shape%2 // the lowest levels hold several sibling lists
					l := &ref.Item{Kind: ref.L}
					sib := 1
					if wide {
						sib = 3
					}
					for k := 0; k < sib; k++ {
						if shape != 3 || k > 0 {
							l.Children = append(l.Children, leaf())
						}
						l.Children = append(l.Children, nest(d-1))
						if shape >= 2 {
							l.Children = append(l.Children, leaf())
						}
					}
					return l
				}
				it := nest(depth)
				g := gen.New(r, gen.Profile{})
				m := g.Msg(it, false)
				m.Session = -1
				nonCanon := 0
				st := &smltext.NumStyle{R: r, Variety: shape%2 == 1, NonCanon: &nonCanon}
				toks := smltext.MsgToks(st, m, r.Bool())
				c.Class("deep-nest-with-elements-around-child-lists")
				c05Eval(c, c05Case{Class: "valid", Text: render(r, toks, shape == 1), Msg: m, Note: "deep-nest"})
			}
		}
	}

	// round 11: a text literal under a size declaration counts every character it is written with - blanks at its end,
	// written inside the quotes, as a separate quoted piece or as character codes, are characters like any other: a
	// literal that is too long by blanks only is refused, one that fits keeps them
	{
		type form struct {
			decl string
			max  int
		}
		for _, n := range []int{0, 1, 2, 5, 31} {
			for _, f := range []form{{fmt.Sprintf("[%d]", n), n}, {fmt.Sprintf("[..%d]", n), n}, {fmt.Sprintf("[0..%d]", n), n}, {fmt.Sprintf("[%d..%d]", n, n), n}} {
				base := strings.Repeat("ab", n)[:n]
				for k := 1; k <= 3; k++ {
					pad := strings.Repeat(" ", k)
					lits := []string{
						fmt.Sprintf("%q", base+pad),
						fmt.Sprintf("%q %q", base, pad),
						fmt.Sprintf("%q%s", base, strings.Repeat(" 0x20", k)),
						fmt.Sprintf("%q%s", base, strings.Repeat(" 32", k)),
					}
					if n == 0 {
						lits = []string{fmt.Sprintf("%q", pad), strings.TrimSpace(strings.Repeat(" 0x20", k)), strings.TrimSpace(strings.Repeat(" 32", k))}
					}
					for li, lit := range lits {
						for _, wrap := range []string{"S1F1 W H->E\n<A%s %s> .", "S1F1 W H->E\n<L <U1 1> <A%s %s>> ."} {
							c.Class("sized-text-too-long-by-blanks-only")
							c05Eval(c, c05Case{Class: "invalid", Text: fmt.Sprintf(wrap, f.decl, lit), Note: "too-long-by-blanks"})
						}
						// the same literal where it fits: every blank is kept
						if li < 2 || n > 0 {
							str := []byte(base + pad)
							m := &ref.Msg{Stream: 1, Function: 1, W: 1, Dir: "H->E", Session: -1, Item: &ref.Item{Kind: ref.A, Str: str}}
							c.Class("sized-text-with-blanks-that-fit")
							c05Eval(c, c05Case{Class: "valid", Text: fmt.Sprintf("S1F1 W H->E\n<A[%d] %s> .", len(str), lit), Msg: m, Note: "blanks-kept"})
							c05Eval(c, c05Case{Class: "valid", Text: fmt.Sprintf("S1F1 W H->E\n<A[..%d] %s> .", len(str)+1, lit), Msg: m, Note: "blanks-kept"})
						}
					}
				}
			}
		}
	}

	// unspecified forms: an error, or one of the plausible readings
	type unspec struct {
		kind  ref.Kind
		tok   string
		reads []ref.Slot
		note  string
	}
	var us []unspec
	for _, k := range []ref.Kind{ref.I1, ref.I4, ref.U1, ref.U2, ref.B} {
		mk := func(vs ...int64) []ref.Slot {
			var out []ref.Slot
			for _, v := range vs {
				if k.IsInt() {
					out = append(out, ref.Slot{Int: v})
				} else {
					out = append(out, ref.Slot{Uint: uint64(v)})
				}
			}
			return out
		}
		us = append(us, unspec{k, "010", mk(10, 8), "leading-zero"}, unspec{k, "007", mk(7), "leading-zeros"},
			unspec{k, "+5", mk(5), "plus-sign"}, unspec{k, "5.", mk(5), "trailing-point"}, unspec{k, "5.0", mk(5), "integral-fraction"},
			unspec{k, "1e1", mk(10), "exponent-form"}, unspec{k, "-0", mk(0), "negative-zero"}, unspec{k, "0x0A", mk(10), "hex-leading-zero"})
	}
	for _, k := range []ref.Kind{ref.F4, ref.F8} {
		f := func(v float64) ref.Slot {
			if k == ref.F4 {
				b, _ := ref.F32FromF64Bits(mathBits(v))
				return ref.Slot{Uint: uint64(b)}
			}
			return ref.Slot{Uint: mathBits(v)}
		}
		us = append(us, unspec{k, "0x10", []ref.Slot{f(16)}, "hex-integer-in-float"}, unspec{k, "0b11", []ref.Slot{f(3)}, "binary-integer-in-float"},
			unspec{k, ".5", []ref.Slot{f(0.5)}, "leading-point"}, unspec{k, "5.", []ref.Slot{f(5)}, "trailing-point"}, unspec{k, "010", []ref.Slot{f(10), f(8)}, "leading-zero"},
			unspec{k, "0o17", []ref.Slot{f(15)}, "octal-integer-in-float"})
	}
	us = append(us, unspec{ref.B, "1e2", []ref.Slot{{Uint: 100}}, "exponent-form-100"})
	for _, u := range us {
		for _, ctxLen := range []int{0, 2} {
			it := &ref.Item{Kind: u.kind}
			for j := 0; j < ctxLen; j++ {
				it.Slots = append(it.Slots, g.Value(u.kind))
			}
			var alts []*ref.Msg
			for _, rd := range u.reads {
				a := it.Clone()
				a.Slots = append(a.Slots, rd)
				alts = append(alts, &ref.Msg{Stream: 3, Function: 5, W: 1, Dir: "H<-E", Item: a, Session: -1})
			}
			st := &smltext.NumStyle{R: r}
			toks := smltext.ItemToks(st, it, false)
			toks = append(toks[:len(toks)-1], smltext.W(u.tok), smltext.B(">"))
			text := "S3F5 W H<-E " + smltext.Render(toks, "", smltext.Canonical(toks), nil).Text + " ."
			c05Eval(c, c05Case{Class: "unspecified", Text: text, Alts: alts, Note: u.note + "/" + u.kind.String()})
		}
	}
	// whatever reading an undocumented spelling gets, it is one reading: the same literal must not denote different
	// numbers in items of different widths (each type may still reject it)
	for _, lit := range []string{"010", "0377", "0128", "007", "00", "-010", "-0177", "0200", "01", "0100000", "+010"} {
		seen := map[string]string{}
		for _, k := range []ref.Kind{ref.I1, ref.I2, ref.I4, ref.I8, ref.U1, ref.U2, ref.U4, ref.U8, ref.B} {
			text := fmt.Sprintf("S1F1 W H->E <%s %s> .", k, lit)
			msgs, errs, _, o := smlParse(text)
			c.NoteBulk(1, 1)
			c.Class("undocumented-spelling-across-widths")
			if o.Panicked || len(errs) > 0 || len(msgs) != 1 {
				continue
			}
			body := itemPart(msgs[0].String())
			val := strings.TrimSuffix(body[strings.Index(body, "] ")+2:], ">")
			if k == ref.B {
				if n, err := strconv.ParseInt(val, 0, 64); err == nil {
					val = fmt.Sprint(n)
				}
			}
			seen[val] += k.String() + " "
		}
		if len(seen) > 1 {
			c.Violation("C05/one-literal-two-values/"+lit, fmt.Sprintf("the literal %s is read as %v depending on the item type", lit, seen), c05Case{Class: "unspecified", Text: "S1F1 W H->E <U1 " + lit + "> .", Note: "across-widths"})
		}
	}
	// raw control characters and line breaks inside quotes: an error or the faithful value
	for _, s := range []string{"a\tb", "\tx", "x\x01y", "a\x7fb", "a\nb", "\nab", "ab\n", "a\rb", "\r\nab", "a\x00b"} {
		alt := &ref.Msg{Stream: 1, Function: 3, W: 0, Dir: "H<->E", Item: &ref.Item{Kind: ref.A, Str: []byte(s)}, Session: -1}
		text := "S1F3 H<->E <A \"" + s + "\"> ."
		c05Eval(c, c05Case{Class: "unspecified", Text: text, Alts: []*ref.Msg{alt}, Note: "raw-control-in-quotes"})
	}
	// backslash sequences are not interpreted: the characters are stored as written
	for _, s := range []string{`\n`, `\\`, `\x41`, `\q`, `C:\dir\file`, `\`, `a\`, `\t\r\n`, `\u0041`, `\"`[:1] + `'`, `\0`, `%s\n`} {
		m := &ref.Msg{Stream: 1, Function: 3, W: 0, Dir: "H<->E", Item: &ref.Item{Kind: ref.A, Str: []byte(s)}, Session: -1}
		text := "S1F3 H<->E <A \"" + s + "\"> ."
		c.Class("backslash-sequences")
		c05Eval(c, c05Case{Class: "valid", Text: text, Msg: m, Note: "backslash-not-an-escape"})
	}
	c.Required = []string{"sized-text-too-long-by-blanks-only", "sized-text-with-blanks-that-fit", "deep-nest-with-elements-around-child-lists", "class/valid", "class/invalid", "class/unspecified", "float-near-midpoint", "float-long-plain-decimal", "repeated-headers-with-different-literals", "systematic-position", "boundary-in-every-base", "backslash-sequences"}
}

func mathBits(v float64) uint64 { return ref.Float64Bits(v) }

func replayC05(c *ctx, raw json.RawMessage) {
	var cs c05Case
	if json.Unmarshal(raw, &cs) == nil {
		c05Eval(c, cs)
	}
}
