package main

import (
	"bytes"
	"encoding/json"
	"fmt"
	"sync"
	"sync/atomic"

	"verifharness/internal/gen"
	"verifharness/internal/real"
	"verifharness/internal/ref"
	"verifharness/internal/rng"

	"github.com/wolimst/lib-secs2-hsms-go/pkg/ast"
)

// C01 — HSMS encode -> decode round trip.

type c01Case struct {
	Source string             `json:"source"` // constructors | template | sml | decoder
	Msg    *ref.Msg           `json:"msg"`    // the intended (complete) message
	Tpl    *ref.Item          `json:"template,omitempty"`
	Counts map[string]int     `json:"counts,omitempty"`
	Sub    map[string]ref.Val `json:"sub,omitempty"`
}

func init() { register("C01", "exploration", runC01, replayC01) }

// featureSig summarises what in a tree could matter to the decoder, for
// violation signatures: formats carrying a multi-byte length, non-empty binary.
func featureSig(it *ref.Item) string {
	maxnl := 0
	nonEmptyB := false
	var walk func(x *ref.Item)
	walk = func(x *ref.Item) {
		n := 0
		switch x.Kind {
		case ref.L:
			n = len(x.Children)
			for _, c := range x.Children {
				walk(c)
			}
		case ref.A:
			n = len(x.Str)
		default:
			n = len(x.Slots) * x.Kind.Width()
			if x.Kind == ref.B && n > 0 {
				nonEmptyB = true
			}
		}
		nl := 1
		if n > 0xFFFF {
			nl = 3
		} else if n > 0xFF {
			nl = 2
		}
		if nl > maxnl {
			maxnl = nl
		}
	}
	if it != nil {
		walk(it)
	}
	s := fmt.Sprintf("maxlenbytes=%d", maxnl)
	if nonEmptyB {
		s += "+nonemptyB"
	}
	return s
}

// c01Check runs the round trip on a real message that is meant to denote model m.
func c01Check(c *ctx, cs c01Case, msg *ast.DataMessage) {
	m := cs.Msg
	src := cs.Source
	c.Class("source/" + src)
	b := msg.ToBytes()
	want := ref.EncodeMessage(m)
	c.Note(rng.Hash64(want), nonEmptyPayload(m.Item))
	feat := featureSig(m.Item)
	c.Class("shape/" + feat)
	if c.WantSample() && len(want) < 120 && len(want) > 20 {
		c.Sample(map[string]interface{}{"source": src, "message": ref.PrintMsg(m), "bytes": fmt.Sprintf("%x", b)})
	}
	if src == "sml" && !bytes.Equal(b, want) {
		// what the SML parser built is C04/C05's business; C01 round-trips the message as built
		c.Class("sml-source-built-a-different-message(round-tripped-as-built)")
		want = b
		if len(b) == 0 {
			return
		}
	}
	if !bytes.Equal(b, want) {
		c.Violation("C01/encoded-bytes-not-the-intended-message/"+src, fmt.Sprintf("ToBytes()=%x intended=%x msg=%s", clipB(b), clipB(want), clipS(ref.PrintMsg(m))), cs)
		return
	}
	dec, ok, o := hsmsParse(b)
	if o.Panicked {
		c.Violation("C01/decoder-panicked", o.String(), cs)
		return
	}
	if !ok {
		c.Violation("C01/decode-of-own-encoding-fails/"+feat, fmt.Sprintf("hsms.Parse(msg.ToBytes()) not ok; bytes=%x msg=%s", clipB(b), clipS(ref.PrintMsg(m))), cs)
		return
	}
	dm, isData := dec.(*ast.DataMessage)
	if !isData {
		c.Violation("C01/decoded-not-a-data-message", fmt.Sprintf("%T", dec), cs)
		return
	}
	a, d := real.Snap(msg), real.Snap(dm)
	diff := ""
	switch {
	case a.Stream != d.Stream:
		diff = fmt.Sprintf("stream %d -> %d", a.Stream, d.Stream)
	case a.Function != d.Function:
		diff = fmt.Sprintf("function %d -> %d", a.Function, d.Function)
	case a.WaitBit != d.WaitBit:
		diff = fmt.Sprintf("wait bit %s -> %s", a.WaitBit, d.WaitBit)
	case a.Session != d.Session:
		diff = fmt.Sprintf("session %d -> %d", a.Session, d.Session)
	case a.Sys != d.Sys:
		diff = fmt.Sprintf("system bytes %s -> %s", a.Sys, d.Sys)
	case itemPart(a.Str) != itemPart(d.Str):
		diff = fmt.Sprintf("item %q -> %q", clipS(itemPart(a.Str)), clipS(itemPart(d.Str)))
	case d.Bytes != a.Bytes:
		diff = fmt.Sprintf("re-encoded bytes differ: %x -> %x", clipB([]byte(a.Bytes)), clipB([]byte(d.Bytes)))
	case len(d.Vars) != 0:
		diff = "decoded message has variables"
	}
	if diff != "" {
		c.Violation("C01/round-trip-differs/"+feat, diff+" msg="+clipS(ref.PrintMsg(m)), cs)
		return
	}
	// a receive loop: the frame is decoded from a buffer, the buffer is refilled with the next frame (same message,
	// other session id and system bytes) and decoded again; the first decoded message still is what was sent first
	if len(b) <= 4096 && rng.Hash64(b)%3 == 0 {
		buf := make([]byte, len(b), len(b)+32)
		copy(buf, b)
		first, ok1, _ := hsmsParse(buf)
		for _, i := range []int{4, 5, 10, 11, 12, 13} {
			buf[i] ^= 0x5A
		}
		second, ok2, _ := hsmsParse(buf)
		for i := range buf {
			buf[i] = 0xEE
		}
		c.Class("receive-buffer-reused")
		if fm, isD := first.(*ast.DataMessage); !ok1 || !ok2 || !isD || second == nil {
			c.Violation("C01/receive-buffer-reused/decode-fails", fmt.Sprintf("ok %v %v msg=%s", ok1, ok2, clipS(ref.PrintMsg(m))), cs)
			return
		} else if dd := real.Snap(fm).Diff(d); dd != "" {
			c.Violation("C01/receive-buffer-reused/first-message-changed", fmt.Sprintf("after the buffer was refilled and decoded again the first decoded message differs from what was sent: %s msg=%s", dd, clipS(ref.PrintMsg(m))), cs)
			return
		}
	}
	// a message derived from an already encoded one must encode its own fields (not a memo of its parent's bytes)
	if src != "decoder" && src != "restamped" {
		r := rng.New(rng.Hash64(b))
		m2 := *m
		m2.Session = r.Intn(65536)
		copy(m2.Sys[:], r.Bytes(4))
		var derived *ast.DataMessage
		if o := real.Try(func() { derived = msg.SetSessionIDAndSystemBytes(m2.Session, m2.Sys[:]) }); !o.Panicked {
			cs2 := cs
			cs2.Source = "restamped"
			cs2.Msg = &m2
			if src == "sml" {
				// the parser may have built a different item; only the header part is ours to predict
				got := derived.ToBytes()
				if len(got) >= 14 && (int(got[4])<<8|int(got[5]) != m2.Session || !bytes.Equal(got[10:14], m2.Sys[:])) {
					c.Violation("C01/derived-message-encodes-stale-header/"+src, fmt.Sprintf("after SetSessionIDAndSystemBytes(%d, %x) the bytes carry %x", m2.Session, m2.Sys, got[4:14]), cs)
				}
			} else {
				c01Check(c, cs2, derived)
			}
		}
	}
	// source (d): the decoder's own output, encoded and decoded once more
	if src != "decoder" {
		dec2, ok2, _ := hsmsParse(dm.ToBytes())
		c.Class("source/decoder")
		if !ok2 || !bytes.Equal(dec2.ToBytes(), b) {
			c.Violation("C01/second-round-trip-differs/"+feat, "decoding the re-encoded decoder output failed or differs", cs)
		}
	}
}

func c01Eval(c *ctx, cs c01Case) {
	m := cs.Msg
	switch cs.Source {
	case "constructors":
		var msg *ast.DataMessage
		o := real.Try(func() { msg = real.BuildMsg(m) })
		if o.Panicked {
			c.Violation("C01/constructor-refused-valid", o.String()+" "+clipS(ref.PrintMsg(m)), cs)
			return
		}
		c01Check(c, cs, msg)
	case "template":
		// template with variables/ellipses, W optional, no session; completed by the producers
		var msg, expanded *ast.DataMessage
		o := real.Try(func() {
			t := &ref.Msg{Name: m.Name, Stream: m.Stream, Function: m.Function, W: 2, Dir: m.Dir, Item: cs.Tpl, Session: -1}
			if m.W == 1 || m.Function%2 == 0 {
				t.W = m.W // optional W only where both resolutions are legal is not needed; keep some decided
			}
			msg = real.BuildMsg(t)
			if len(cs.Counts) > 0 {
				cm := map[string]interface{}{}
				for k, v := range cs.Counts {
					cm[k] = v
				}
				msg = msg.FillVariables(cm)
			}
			expanded = msg
			raw := map[string]interface{}{}
			for k, v := range cs.Sub {
				raw[k] = rawOf(v)
			}
			msg = msg.FillVariables(raw)
			msg = msg.SetWaitBit(m.W == 1)
			msg = msg.SetSessionIDAndSystemBytes(m.Session, m.Sys[:])
		})
		if o.Panicked {
			c.Violation("C01/template-completion-refused", o.String()+" template="+clipS(ref.Print(cs.Tpl)), cs)
			return
		}
		c01Check(c, cs, msg)
		// a second message is derived from the same (expanded) template with other values for every variable; the first
		// message still is the message it was (what it shares with the template is not where the values live)
		if len(cs.Sub) > 0 && cs.Tpl != nil {
			g2 := gen.New(rng.New(rng.HashStr(ref.Print(cs.Tpl))+1), gen.Profile{})
			sub2 := fullAssignment(g2, ref.Expand(cs.Tpl, cs.Counts))
			raw2 := map[string]interface{}{}
			for k, v := range sub2 {
				raw2[k] = rawOf(v)
			}
			if o2 := real.Try(func() { _ = expanded.FillVariables(raw2).SetWaitBit(m.W == 1).ToBytes() }); !o2.Panicked {
				c.Class("template/first-message-re-checked-after-a-second-derivation")
				c01Check(c, cs, msg)
			}
		}
	case "sml":
		t := *m
		t.Session = -1
		text := ref.PrintMsg(&t)
		msgs, errs, _, o := smlParse(text)
		if o.Panicked || len(errs) > 0 || len(msgs) != 1 {
			// whether the printed form parses is property C04's business
			c.Class("sml-source-not-parsed(skipped)")
			return
		}
		var msg *ast.DataMessage
		o = real.Try(func() { msg = msgs[0].SetWaitBit(m.W == 1).SetSessionIDAndSystemBytes(m.Session, m.Sys[:]) })
		if o.Panicked {
			c.Class("sml-source-not-completed(skipped)")
			return
		}
		c01Check(c, cs, msg)
	}
}

// valSlot wraps a model slot value of kind k as a fill-in value.
func valSlot(k ref.Kind, s ref.Slot) ref.Val {
	t := s
	return ref.Val{Slot: &t, K: k}
}

// rawOf renders a model fill-in value as the natural Go value for the API.
func rawOf(v ref.Val) interface{} {
	switch {
	case v.Item != nil:
		return real.Build(v.Item)
	case v.IsS:
		return string(v.Str)
	case v.Slot != nil:
		return real.SlotValue(v.K, *v.Slot)
	}
	return nil
}

// c01Template draws a template, expansion counts and a total assignment, and
// the model of the completed item.
func c01Template(g *gen.G) (tpl *ref.Item, counts map[string]int, sub map[string]ref.Val, filled *ref.Item) {
	tpl = g.Tree()
	counts = map[string]int{}
	for _, v := range tpl.Vars() {
		if ref.IsEllipsisName(v) {
			counts[v] = g.R.Intn(3)
		}
	}
	exp := tpl
	if tpl.Kind == ref.L && len(counts) > 0 {
		exp = ref.Expand(tpl, counts)
	}
	sub = map[string]ref.Val{}
	var walk func(x *ref.Item) *ref.Item
	walk = func(x *ref.Item) *ref.Item {
		if x.Var != "" {
			k := ref.Kind(1 + g.R.Intn(int(ref.NKinds)-1))
			sv := g.P
			g.P.Vars, g.P.Boundary = false, false
			v := g.Scalar(k)
			g.P = sv
			sub[x.Var] = ref.Val{Item: v}
			return v
		}
		switch x.Kind {
		case ref.L:
			n := &ref.Item{Kind: ref.L}
			for _, ch := range x.Children {
				n.Children = append(n.Children, walk(ch))
			}
			return n
		case ref.A:
			if x.AVar != "" {
				n := x.AMin
				if x.AMax == -1 {
					n += g.R.Intn(6)
				} else if x.AMax > x.AMin {
					n += g.R.Intn(spanCap(x.AMax-x.AMin) + 1)
				}
				s := g.ASCII(n)
				sub[x.AVar] = ref.Val{Str: s, IsS: true}
				return &ref.Item{Kind: ref.A, Str: s}
			}
			return x.Clone()
		}
		n := x.Clone()
		for i, s := range n.Slots {
			if s.Var != "" {
				v := g.Value(x.Kind)
				sub[s.Var] = valSlot(x.Kind, v)
				n.Slots[i] = v
			}
		}
		return n
	}
	filled = walk(exp)
	return
}

func runC01(c *ctx) {
	c.Rule = "complete messages from four sources (constructors; templates with variables and ellipses completed by FillVariables/SetWaitBit/SetSessionIDAndSystemBytes; sml.Parse of the printed form; the decoder's own output) are encoded, checked against the reference encoding of the intended message, decoded and compared field by field, re-encoded and compared; all 128x256 stream/function pairs, boundary session ids/system bytes, every format at every boundary length; non-trivial = item has a non-empty payload, distinct by hash of the encoded bytes Also (rounds 4-8): nesting chains with siblings at every depth to 70/140; arrays of 2^20+1 values in eight formats; a receive loop (decode, refill the buffer, decode again, re-read the first message); a second derivation from the same template followed by a second round trip of the first message; first encodings of template-completed messages asked by eight goroutines behind a spin barrier. Also (round 9): before one decode in four a frame that is refused half-way (NaN, 8-bit character, text ending inside an element ..) is decoded first; generated trees hold parts that stand in a relation to one another (equal or adjacent lengths, prefix/suffix/case-variant strings, values equal to a count or index, repeated subtrees). Also (round 10): every decode runs on the harness's own copy of the frame, which is overwritten with two-byte UTF-8 sequences before the result is read."
	c.Assume = []string{"reference encoder ties the bytes to the intended message", "item identity is judged through the printed form of the item (the API exposes no other accessor)"}

	// all (stream, function) pairs once each, small random item
	c.parallel(128*256, func(i int, r *rng.R) {
		g := gen.New(r, gen.Profile{MaxDepth: 2, Budget: 60})
		m := g.Msg(g.Tree(), true)
		m.Stream, m.Function = i/256, i%256
		if m.Function%2 == 0 {
			m.W = 0
		}
		c01Eval(c, c01Case{Source: "constructors", Msg: m})
	})
	c.Extra["stream_function_pairs"] = 128 * 256

	n := c.pick(25000, 700000)
	c.parallel(n, func(i int, r *rng.R) {
		switch i % 4 {
		case 0, 1:
			p := gen.Profile{MaxDepth: 1 + r.Intn(5), Boundary: true, Budget: 800}
			if i%64 == 0 {
				p.Budget = 140000
			}
			if c.thorough && i%4096 == 1 {
				p.Budget = 2 << 20
			}
			g := gen.New(r, p)
			var it *ref.Item
			if r.Chance(1, 20) {
				it = nil
			} else {
				it = g.Tree()
			}
			c01Eval(c, c01Case{Source: "constructors", Msg: g.Msg(it, true)})
		case 2:
			// bracket-free base names when ellipses are present, so that generated names (x[1]) cannot collide with existing ones
			ell := r.Bool()
			g := gen.New(r, gen.Profile{MaxDepth: 1 + r.Intn(4), Vars: true, Ellipsis: ell, PlainNames: ell, Budget: 300})
			tpl, counts, sub, filled := c01Template(g)
			m := g.Msg(filled, true)
			m.Name = ""
			c01Eval(c, c01Case{Source: "template", Msg: m, Tpl: tpl, Counts: counts, Sub: sub})
		case 3:
			g := gen.New(r, gen.Profile{MaxDepth: 1 + r.Intn(4), Budget: 300})
			c01Eval(c, c01Case{Source: "sml", Msg: g.Msg(g.Tree(), true)})
		}
	})

	// every format at every boundary length; lists with 255/256/65535/65536 children
	r := c.rnd.Derive(9)
	for k := ref.L; k < ref.NKinds; k++ {
		for _, bl := range gen.BoundaryLens {
			g := gen.New(r, gen.Profile{})
			it := &ref.Item{Kind: k}
			switch {
			case k == ref.L:
				leaf := &ref.Item{Kind: ref.B, Slots: []ref.Slot{{Uint: 0xA5}}}
				for i := 0; i < bl; i++ {
					it.Children = append(it.Children, leaf)
				}
			case k == ref.A:
				it.Str = g.ASCII(bl)
			default:
				it.Slots = make([]ref.Slot, bl/k.Width())
				for i := range it.Slots {
					it.Slots[i] = g.Value(k)
				}
			}
			c.Class("boundary-length-items")
			c01Eval(c, c01Case{Source: "constructors", Msg: g.Msg(it, true)})
		}
	}
	// lists of many empty items (every kind), at the length-byte boundaries and beyond
	var wide []c01Case
	for _, n := range []int{255, 256, 65535, 65536, 65537, c.pick(70000, 200000)} {
		for k := ref.L; k < ref.NKinds; k++ {
			if k != ref.L && n != 256 && n != 65536 && !c.thorough {
				continue
			}
			it := &ref.Item{Kind: ref.L}
			empty := &ref.Item{Kind: k}
			for i := 0; i < n; i++ {
				it.Children = append(it.Children, empty)
			}
			gg := gen.New(r, gen.Profile{})
			wide = append(wide, c01Case{Source: "constructors", Msg: gg.Msg(it, true)})
		}
	}
	c.parallel(len(wide), func(i int, _ *rng.R) {
		c.Class("lists-of-empty-items")
		c01Eval(c, wide[i])
	})
	// items at the 16,777,215-byte limit (1-byte formats reach it exactly); quick: ASCII only
	giant := []ref.Kind{ref.A}
	if c.thorough {
		giant = []ref.Kind{ref.A, ref.B, ref.I1, ref.U1, ref.BOOLEAN}
	}
	for _, k := range giant {
		for _, n := range []int{ref.MaxBytes - 1, ref.MaxBytes} {
			it := &ref.Item{Kind: k}
			if k == ref.A {
				it.Str = bytes.Repeat([]byte("Z"), n)
			} else {
				it.Slots = make([]ref.Slot, n)
				for i := range it.Slots {
					if k == ref.I1 {
						it.Slots[i].Int = -3
					} else {
						it.Slots[i].Uint = 1
					}
				}
			}
			gg := gen.New(r, gen.Profile{})
			c.Class("items-at-the-size-limit")
			c01Eval(c, c01Case{Source: "constructors", Msg: gg.Msg(it, true)})
		}
	}
	// a message whose text is longer than any single item can be (a list of large items): the 4-byte message length
	// is the only bound
	{
		half := &ref.Item{Kind: ref.A, Str: bytes.Repeat([]byte("h"), 9<<20)}
		gg := gen.New(r, gen.Profile{})
		c.Class("message-longer-than-16MiB")
		c01Eval(c, c01Case{Source: "constructors", Msg: gg.Msg(&ref.Item{Kind: ref.L, Children: []*ref.Item{half, half}}, true)})
	}
	// arrays of more than a million values, every multi-value format (decoders that size their buffers by classes)
	for _, k := range []ref.Kind{ref.B, ref.BOOLEAN, ref.U1, ref.I2, ref.U4, ref.F4, ref.F8, ref.I8} {
		n := 1<<20 + 1
		if n*k.Width() > ref.MaxBytes {
			n = ref.MaxBytes / k.Width()
		}
		it := &ref.Item{Kind: k, Slots: make([]ref.Slot, n)}
		it.Slots[0].Uint, it.Slots[n-1].Uint = 1, 1
		if k.IsFloat() {
			it.Slots[0].Uint, it.Slots[n-1].Uint = 0, 0
		}
		gg := gen.New(r, gen.Profile{})
		c.Class("arrays-beyond-a-million-values")
		c01Eval(c, c01Case{Source: "constructors", Msg: gg.Msg(it, true)})
	}
	// the first encodings of a message completed from a template, asked for by eight goroutines at the same moment: each
	// gets the bytes of the complete message
	for round := 0; round < c.pick(200, 2000); round++ {
		rr := rng.New(uint64(1700 + round))
		gg := gen.New(rr, gen.Profile{MaxDepth: 2, Vars: true, PlainNames: true, Budget: 200, MaxKids: 4, MaxElems: 4})
		tpl := gg.Tree()
		if len(tpl.Vars()) == 0 {
			continue
		}
		sub := fullAssignment(gg, tpl)
		filled, ok := ref.Fill(tpl, sub)
		if !ok {
			continue
		}
		m := gg.Msg(filled, true)
		raw := map[string]interface{}{}
		for name, v := range sub {
			raw[name] = rawOf(v)
		}
		var msg *ast.DataMessage
		if o := real.Try(func() {
			t := *m
			t.Item, t.W, t.Session = tpl, 2, -1
			if m.Function%2 == 0 {
				t.W = m.W
			}
			msg = real.BuildMsg(&t).FillVariables(raw).SetWaitBit(m.W == 1).SetSessionIDAndSystemBytes(m.Session, m.Sys[:])
		}); o.Panicked {
			continue
		}
		want := ref.EncodeMessage(m)
		const G = 8
		var arrived int32
		got := make([][]byte, G)
		var wg sync.WaitGroup
		for g := 0; g < G; g++ {
			wg.Add(1)
			go func(g int) {
				defer wg.Done()
				defer func() { recover() }()
				atomic.AddInt32(&arrived, 1)
				for atomic.LoadInt32(&arrived) < G {
				}
				got[g] = msg.ToBytes()
			}(g)
		}
		wg.Wait()
		c.NoteBulk(G, G)
		c.Class("first-encodings-asked-by-several-goroutines")
		for g := range got {
			if !bytes.Equal(got[g], want) {
				c.Violation("C01/first-encoding-under-concurrency", fmt.Sprintf("a message completed from a template, encoded for the first time by %d goroutines at once: goroutine %d got %d bytes %x, the message is %x", G, g, len(got[g]), clipB(got[g]), clipB(want)), c01Case{Source: "template", Msg: m, Tpl: tpl, Sub: sub})
				round = 1 << 30
				break
			}
		}
	}
	// nesting chains
	for _, depth := range []int{1, 2, 10, 40, c.pick(200, 2000)} {
		it := &ref.Item{Kind: ref.U2, Slots: []ref.Slot{{Uint: 0xBEEF}}}
		for i := 0; i < depth; i++ {
			it = &ref.Item{Kind: ref.L, Children: []*ref.Item{it}}
		}
		g := gen.New(r, gen.Profile{})
		c.Class("nesting-chain")
		c01Eval(c, c01Case{Source: "constructors", Msg: g.Msg(it, true)})
	}
	// every nesting depth up to 70 (and a few beyond), with distinct leaves before and after the nested list at every
	// level (an encoder or decoder that keeps its own stack of open lists shows itself when that stack grows)
	for depth := 1; depth <= c.pick(70, 140); depth++ {
		for shape := 0; shape < 3; shape++ {
			var it *ref.Item = &ref.Item{Kind: ref.A, Str: []byte("bottom")}
			for i := 0; i < depth; i++ {
				l := &ref.Item{Kind: ref.L}
				if shape >= 1 {
					l.Children = append(l.Children, &ref.Item{Kind: ref.U2, Slots: []ref.Slot{{Uint: uint64(i)}}})
				}
				l.Children = append(l.Children, it)
				if shape == 2 {
					l.Children = append(l.Children, &ref.Item{Kind: ref.I2, Slots: []ref.Slot{{Int: int64(-i)}}}, &ref.Item{Kind: ref.L})
				}
				it = l
			}
			g := gen.New(r, gen.Profile{})
			c.Class("nesting-chain-with-siblings")
			c01Eval(c, c01Case{Source: "constructors", Msg: g.Msg(it, true)})
		}
	}
	// every byte value in B, every character in A
	all := &ref.Item{Kind: ref.B}
	for v := 0; v < 256; v++ {
		all.Slots = append(all.Slots, ref.Slot{Uint: uint64(v)})
	}
	allA := &ref.Item{Kind: ref.A}
	for v := 0; v < 128; v++ {
		allA.Str = append(allA.Str, byte(v))
	}
	g := gen.New(r, gen.Profile{})
	c01Eval(c, c01Case{Source: "constructors", Msg: g.Msg(&ref.Item{Kind: ref.L, Children: []*ref.Item{all, allA}}, true)})
	c.Required = []string{"source/constructors", "source/template", "source/sml", "source/decoder", "source/restamped", "lists-of-empty-items", "items-at-the-size-limit", "message-longer-than-16MiB", "receive-buffer-reused", "arrays-beyond-a-million-values", "first-encodings-asked-by-several-goroutines", "template/first-message-re-checked-after-a-second-derivation", "nesting-chain", "nesting-chain-with-siblings", "shape/maxlenbytes=2", "shape/maxlenbytes=3"}
}

func replayC01(c *ctx, raw json.RawMessage) {
	var cs c01Case
	if json.Unmarshal(raw, &cs) == nil && cs.Msg != nil {
		c01Eval(c, cs)
	}
}
