package main

import (
	"fmt"
	"sort"
	"strings"

	"verifharness/internal/gen"
	"verifharness/internal/real"
	"verifharness/internal/ref"
	"verifharness/internal/rng"

	"github.com/wolimst/lib-secs2-hsms-go/pkg/ast"
	"github.com/wolimst/lib-secs2-hsms-go/pkg/parser/hsms"
	"github.com/wolimst/lib-secs2-hsms-go/pkg/parser/sml"
)

// itemPart strips the header line and the terminator from a printed message.
func itemPart(s string) string {
	i := strings.Index(s, "\n")
	if i < 0 {
		return ""
	}
	s = s[i+1:]
	if s == "." {
		return ""
	}
	return strings.TrimSuffix(s, "\n.")
}

// hsmsParse calls the decoder under recover (no panic is expected to escape;
// C07 is the property that says so, here an escape is reported by the caller).
//
// History device: for one input in four a frame that the decoder must refuse AFTER it has decoded part of it is
// decoded first (a constructor refuses a later element: NaN, an 8-bit character, a wait bit on a reply; or the text
// ends inside an element). Whatever a decoder keeps between calls must not leak from a refused frame into the next.
func hsmsParse(b []byte) (msg ast.HSMSMessage, ok bool, o real.Outcome) {
	head := b
	if len(head) > 64 {
		head = head[:64]
	}
	if h := rng.Hash64(head) ^ uint64(len(b)); h%4 == 0 {
		p := hsmsPoison[(h/4)%uint64(len(hsmsPoison))]
		real.Try(func() { hsms.Parse(append([]byte(nil), p...)) })
	}
	// Receive-loop device (round 10): the decoder gets its own copy of the frame, in a buffer with spare capacity, and
	// the copy is overwritten with the next "frame" - two-byte UTF-8 sequences, which change the rune count of any text
	// that still reads from the buffer - before the caller looks at the result. A decoded message denotes the bytes it
	// was decoded from, not the buffer they arrived in.
	in := append(make([]byte, 0, len(b)+16), b...)
	o = real.Try(func() { msg, ok = hsms.Parse(in) })
	in = in[:cap(in)]
	for i := range in {
		if i&1 == 0 {
			in[i] = 0xC3
		} else {
			in[i] = 0xA9
		}
	}
	return
}

var hsmsPoison = func() [][]byte {
	frame := func(b2, b3 byte, text ...byte) []byte {
		n := 10 + len(text)
		out := []byte{byte(n >> 24), byte(n >> 16), byte(n >> 8), byte(n), 0x00, 0x07, b2, b3, 0, 0, 0xDE, 0xAD, 0xBE, 0xEF}
		return append(out, text...)
	}
	return [][]byte{
		frame(0x81, 0x01, 0x01, 0x02, 0xA5, 0x01, 0x07, 0x91, 0x04, 0x7F, 0xC0, 0x00, 0x00),                                              // <L <U1 7> <F4 NaN>>
		frame(0x81, 0x01, 0x01, 0x02, 0x41, 0x02, 'o', 'k', 0x41, 0x01, 0x80),                                                            // <L <A "ok"> <A 0x80>>
		frame(0x06, 0x0B, 0x01, 0x03, 0x01, 0x01, 0x41, 0x03, 'p', 'o', 'i', 0x21, 0x01, 0xFF, 0x81, 0x08, 0x7F, 0xF0, 0, 0, 0, 0, 0, 0), // <L <L <A "poi">> <B 0xFF> <F8 +Inf>>
		frame(0x81, 0x02, 0x01, 0x01, 0x41, 0x01, 'w'),                                                                                   // wait bit on a reply, with an item
		frame(0x81, 0x01, 0x01, 0x02, 0xA9, 0x02, 0x12, 0x34, 0xB1, 0x04, 0x00, 0x01),                                                    // <L <U2 0x1234> <U4 ..cut>>
		frame(0x81, 0x01, 0x01, 0x02, 0x25, 0x01, 0x01, 0x01, 0x02, 0x71, 0x04, 0, 0, 0, 9),                                              // second element: a list that declares more than is there
	}
}()

var smlPoison = []string{
	"S1F1 W H->E first <L <U1 x y v val _ a1> ... <A[2] \"abc\">> .\nS1F3 W <L <I1 x 300> ...[5]> .",
	"S2F1 W <L <A v0> <L <U1 v1 v1> ...> ...> .",
	"S6F11 W H<-E ceid <L <U4 ceid CEID> <A \"open\n> .",
	"S1F2 <L <BOOLEAN T F x> <F4 1e39> <B 0x100> <L ... > > .",
	"S9F9 [W] <L <A[1..0] w> <U1 h e> <L <L <L <I8 Temp ...",
	"S1F1 W <U1 x> . S1F1 W <U1 x x> . S1F1 W <U1 y",
}

const smlProbeText = "S99F1 W H->E probe\n<L <U1 7> <A \"probe\">> ."

// smlParse is sml.Parse with two history devices around it (both silent unless something is wrong):
//   - for one input in four a small unrelated text is parsed after the call, and what the call returned must still be what it was (results are
//     not lent from storage the next call reuses);
//   - for one short input in four the caller does what it may do with its result - it copies it, then clears every
//     entry of the returned slices - and parses the same text again: the second result equals the first (results are
//     not handed out twice).
func smlParse(s string) (msgs []*ast.DataMessage, errs, warns []string, o real.Outcome) {
	if h := rng.HashStr(s); h%4 == 2 {
		// a text that is refused after part of it was parsed (names declared, ellipses counted, a message completed)
		// goes first: nothing of it may show in the call that follows
		p := smlPoison[(h/4)%uint64(len(smlPoison))]
		real.Try(func() { sml.Parse(p) })
	}
	o = real.Try(func() { msgs, errs, warns = sml.Parse(s) })
	if o.Panicked {
		return
	}
	heads := func(ms []*ast.DataMessage) string {
		var sb strings.Builder
		for _, m := range ms {
			if m == nil {
				sb.WriteString("<nil>|")
				continue
			}
			sb.WriteString(m.Header())
			sb.WriteString("|")
		}
		return sb.String()
	}
	before := heads(msgs) + fmt.Sprint(errs, warns)
	if len(s) < 2000 && rng.HashStr(s)%4 == 0 {
		m2 := append([]*ast.DataMessage(nil), msgs...)
		e2 := append([]string(nil), errs...)
		w2 := append([]string(nil), warns...)
		for i := range msgs {
			msgs[i] = nil
		}
		for i := range errs {
			errs[i] = "cleared by the caller"
		}
		for i := range warns {
			warns[i] = "cleared by the caller"
		}
		var m3 []*ast.DataMessage
		var e3, w3 []string
		real.Try(func() { m3, e3, w3 = sml.Parse(s) })
		if again := heads(m3) + fmt.Sprint(e3, w3); again != before && real.OnAnomaly != nil {
			real.OnAnomaly(fmt.Sprintf("sml.Parse(%q) gave %q; the caller cleared the slices it had got, and the same text then parsed to %q", clipS(s), clipS(before), clipS(again)))
		}
		msgs, errs, warns = m2, e2, w2
	}
	if rng.HashStr(s)%4 != 1 {
		return // the probe device runs for one input in four as well
	}
	real.Try(func() { sml.Parse(smlProbeText) })
	if after := heads(msgs) + fmt.Sprint(errs, warns); after != before && real.OnAnomaly != nil {
		real.OnAnomaly(fmt.Sprintf("the result of sml.Parse(%q) read %q; after another text was parsed the same slices read %q", clipS(s), clipS(before), clipS(after)))
	}
	return
}

// assignAll gives every variable of a (ellipsis-free) model tree an in-domain
// value. It returns the model-level substitution and the raw Go values to
// hand to FillVariables.
func assignAll(g *gen.G, it *ref.Item) (map[string]ref.Val, map[string]interface{}) {
	sub := map[string]ref.Val{}
	raw := map[string]interface{}{}
	var walk func(x *ref.Item)
	walk = func(x *ref.Item) {
		if x.Var != "" {
			if ref.IsEllipsisName(x.Var) {
				return
			}
			// list variable: a small variable-free item
			k := ref.Kind(1 + g.R.Intn(int(ref.NKinds)-1))
			sv := g.P
			g.P.Vars = false
			g.P.Boundary = false
			v := g.Scalar(k)
			g.P = sv
			sub[x.Var] = ref.Val{Item: v}
			raw[x.Var] = real.Build(v)
			return
		}
		switch x.Kind {
		case ref.L:
			for _, c := range x.Children {
				walk(c)
			}
		case ref.A:
			if x.AVar != "" {
				n := x.AMin
				if x.AMax == -1 {
					n += g.R.Intn(6)
				} else if x.AMax > x.AMin {
					n += g.R.Intn(spanCap(x.AMax-x.AMin) + 1)
				}
				s := g.ASCII(n)
				if g.R.Chance(1, 8) {
					// a text that spells the variable's own name or the name of another variable of the tree
					cand := x.AVar
					if all := it.Vars(); len(all) > 0 && g.R.Bool() {
						cand = all[g.R.Intn(len(all))]
					}
					if !ref.IsEllipsisName(cand) && len(cand) >= x.AMin && (x.AMax == -1 || len(cand) <= x.AMax) {
						s = []byte(cand)
					}
				}
				sub[x.AVar] = ref.Val{Str: s, IsS: true}
				raw[x.AVar] = string(s)
			}
		default:
			for _, s := range x.Slots {
				if s.Var != "" {
					v := g.Value(x.Kind)
					sub[s.Var] = ref.Val{Slot: &v}
					raw[s.Var] = goValue(g.R, x.Kind, v)
				}
			}
		}
	}
	walk(it)
	return sub, raw
}

// goValue renders a model value as one of the Go types that can hold it, so
// that every accepted argument type is exercised.
func goValue(r *rng.R, k ref.Kind, s ref.Slot) interface{} {
	switch {
	case k == ref.B:
		if r.Chance(1, 4) {
			return "0b" + fmt.Sprintf("%b", s.Uint)
		}
		return int(s.Uint)
	case k == ref.BOOLEAN:
		return s.Uint != 0
	case k.IsInt():
		return intAs(r, s.Int)
	case k.IsUint():
		return uintAs(r, s.Uint)
	default:
		return real.SlotValue(k, s)
	}
}

func intAs(r *rng.R, v int64) interface{} {
	var c []interface{}
	c = append(c, v, int(v))
	if v >= -128 && v <= 127 {
		c = append(c, int8(v))
	}
	if v >= -32768 && v <= 32767 {
		c = append(c, int16(v))
	}
	if v >= -1<<31 && v <= 1<<31-1 {
		c = append(c, int32(v))
	}
	if v >= 0 {
		c = append(c, uint64(v), uint(v))
		if v <= 255 {
			c = append(c, uint8(v))
		}
		if v <= 65535 {
			c = append(c, uint16(v))
		}
		if v <= 1<<32-1 {
			c = append(c, uint32(v))
		}
	}
	return c[r.Intn(len(c))]
}

func uintAs(r *rng.R, v uint64) interface{} {
	var c []interface{}
	c = append(c, v, uint(v))
	if v <= 255 {
		c = append(c, uint8(v))
	}
	if v <= 65535 {
		c = append(c, uint16(v))
	}
	if v <= 1<<32-1 {
		c = append(c, uint32(v))
	}
	if v <= 1<<63-1 {
		c = append(c, int64(v), int(v))
		if v <= 127 {
			c = append(c, int8(v))
		}
		if v <= 32767 {
			c = append(c, int16(v))
		}
		if v <= 1<<31-1 {
			c = append(c, int32(v))
		}
	}
	return c[r.Intn(len(c))]
}

// hasEmptyPayloadOnly reports whether an item carries no payload at all.
func nonEmptyPayload(it *ref.Item) bool {
	if it == nil {
		return false
	}
	switch it.Kind {
	case ref.L:
		for _, c := range it.Children {
			if nonEmptyPayload(c) {
				return true
			}
		}
		return false
	case ref.A:
		return len(it.Str) > 0
	}
	return len(it.Slots) > 0
}

// spanCap bounds the extra length drawn for an ASCII fill value (declared upper bounds may be astronomically large).
func spanCap(span int) int {
	if span > 8 {
		return 8
	}
	return span
}

// keysOf lists the keys of a fill map in sorted order (for messages).
func keysOf(m map[string]interface{}) []string {
	out := make([]string, 0, len(m))
	for k := range m {
		out = append(out, k)
	}
	sort.Strings(out)
	return out
}
