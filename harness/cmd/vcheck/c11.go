package main

import (
	"encoding/json"
	"fmt"
	"sync"

	"verifharness/internal/gen"
	"verifharness/internal/real"
	"verifharness/internal/ref"
	"verifharness/internal/rng"

	"github.com/wolimst/lib-secs2-hsms-go/pkg/ast"
)

// C11 — items and messages are immutable; no aliasing with caller data.
// Random API histories over a growing pool; after every step every slice/map
// that went in or came out is scribbled over and every pooled object is
// re-read and compared with its snapshot at creation.

type c11Case struct {
	HistorySeed uint64   `json:"history_seed"`
	Steps       int      `json:"steps"`
	FailedStep  int      `json:"failed_step,omitempty"`
	Trace       []string `json:"trace,omitempty"` // the operations up to the failing step
}

func init() { register("C11", "exploration", runC11, replayC11) }

type pooled struct {
	kind string // item | data | control
	item ast.ItemNode
	data *ast.DataMessage
	ctl  ast.HSMSMessage
	base ast.ItemNode // data: the item the message was built around, where the harness knows it
	snap string
	born string
	// kinds of the variables this object is known to hold (from the models the harness built it from);
	// ref.L stands for a list variable. Unknown for parser-produced objects.
	kinds map[string]ref.Kind
}

// snapOf reads every observer of an object. An observer that panics is part of what is observed (it becomes the
// snapshot), never a crash of the harness.
func snapOf(p *pooled) (snap string) {
	defer func() {
		if r := recover(); r != nil {
			snap = fmt.Sprint("observer panicked: ", r)
		}
	}()
	switch p.kind {
	case "item":
		s := real.SnapItem(p.item)
		extra := ""
		if a, ok := p.item.(*ast.ASCIINode); ok {
			lo, hi := a.FillInStringLength()
			extra = fmt.Sprint(lo, hi)
		}
		return fmt.Sprintf("%s|%x|%q|%d|%s", s.Str, s.Bytes, s.Vars, s.Size, extra)
	case "data":
		s := real.Snap(p.data)
		b, _ := json.Marshal(s)
		return string(b)
	default:
		return fmt.Sprintf("%s|%x", p.ctl.Type(), p.ctl.ToBytes())
	}
}

// sliceOf returns n random bytes that are the front of a larger buffer (spare capacity holds stale data), as a slice
// of a receive buffer would be.
func sliceOf(r *rng.R, n int) []byte {
	buf := r.Bytes(n + 4 + r.Intn(8))
	if r.Chance(1, 3) {
		return buf[:n:n] // exact capacity
	}
	return buf[:n]
}

func scribbleBytes(b []byte) {
	for i := range b {
		b[i] ^= 0xA5
	}
	// also write into the spare capacity
	b2 := b[:cap(b)]
	for i := len(b); i < len(b2); i++ {
		b2[i] = 0x5A
	}
}

type history struct {
	c     *ctx
	r     *rng.R
	g     *gen.G
	pool  []*pooled
	trace []string
	cs    c11Case
	bad   bool
	scrib map[string]int
}

// fillValue draws a fresh, varied fill-in value for a variable of the given kind, so that filling the same template
// twice gives different results (a producer that shares storage between its results then becomes visible).
func (h *history) fillValue(k ref.Kind, known bool) interface{} {
	r := h.r
	if !known {
		return []interface{}{r.Intn(100), uint8(r.Intn(200)), r.Bool(), string(h.g.ASCII(r.Intn(5))), float64(r.Intn(1000)) / 8, ast.NewBinaryNode(r.Intn(256)), fmt.Sprintf("0b%b", r.Intn(256))}[r.Intn(7)]
	}
	switch {
	case k == ref.L:
		if p := h.pickKind("item"); p != nil && r.Chance(1, 3) {
			// a pooled item (possibly a list with its own variables or ellipsis) becomes the value: it stays in the pool
			// and is re-read after the fill like everything else
			return p.item
		}
		return []ast.ItemNode{ast.NewBinaryNode(r.Intn(256)), ast.NewUintNode(2, r.Intn(65536)), ast.NewASCIINode(string(h.g.ASCII(r.Intn(4)))), ast.NewListNode()}[r.Intn(4)]
	case k == ref.A:
		return string(h.g.ASCII(r.Intn(6)))
	case k == ref.B:
		if r.Chance(1, 4) {
			return fmt.Sprintf("0b%b", r.Intn(256))
		}
		return r.Intn(256)
	case k == ref.BOOLEAN:
		return r.Bool()
	case k.IsFloat():
		if r.Bool() {
			return float32(r.Intn(2000)) / 16
		}
		return float64(r.Intn(100000)) / 64
	case k.IsInt():
		return []interface{}{r.Intn(256) - 128, int8(r.Intn(256) - 128), int64(r.Intn(200) - 100), int16(r.Intn(100))}[r.Intn(4)]
	default:
		return []interface{}{r.Intn(256), uint8(r.Intn(256)), uint64(r.Intn(256)), uint16(r.Intn(200))}[r.Intn(4)]
	}
}

func modelKinds(it *ref.Item, out map[string]ref.Kind) {
	if it.Var != "" {
		if !ref.IsEllipsisName(it.Var) {
			out[it.Var] = ref.L
		}
		return
	}
	switch it.Kind {
	case ref.L:
		for _, c := range it.Children {
			modelKinds(c, out)
		}
	case ref.A:
		if it.AVar != "" {
			out[it.AVar] = ref.A
		}
	default:
		for _, sl := range it.Slots {
			if sl.Var != "" {
				out[sl.Var] = it.Kind
			}
		}
	}
}

func remainingKinds(src map[string]ref.Kind, vars []string) map[string]ref.Kind {
	out := map[string]ref.Kind{}
	for _, v := range vars {
		if k, ok := src[v]; ok {
			out[v] = k
		}
	}
	return out
}

func (h *history) add(p *pooled, born string) {
	p.born = born
	p.snap = snapOf(p)
	if len(h.pool) >= 64 {
		h.pool[h.r.Intn(len(h.pool))] = p
		return
	}
	h.pool = append(h.pool, p)
}

func (h *history) pickKind(kind string) *pooled {
	var c []*pooled
	for _, p := range h.pool {
		if p.kind == kind {
			c = append(c, p)
		}
	}
	if len(c) == 0 {
		return nil
	}
	return c[h.r.Intn(len(c))]
}

// verify re-reads every pooled object.
func (h *history) verify(step int, op, target string) {
	for _, p := range h.pool {
		if now := snapOf(p); now != p.snap {
			h.bad = true
			cs := h.cs
			cs.FailedStep = step
			cs.Trace = append([]string(nil), h.trace...)
			h.c.Violation(fmt.Sprintf("C11/changed/%s/after-%s/scribbled-%s", p.kind, op, target),
				fmt.Sprintf("a %s created by %q changed after step %d (%s, scribbled: %s): was %s now %s", p.kind, p.born, step, op, target, clipS(p.snap), clipS(now)), cs)
			return
		}
	}
}

func (h *history) step(i int) {
	r := h.r
	op, target := "", "nothing"
	note := func(t string) { target = t; h.scrib[t]++ }
	defer func() {
		h.trace = append(h.trace, op)
		h.c.Class("op/" + op)
		h.verify(i, op, target)
		h.c.Note(rng.Mix(rng.HashStr(op+target), uint64(len(h.pool))<<32|uint64(i)), target != "nothing")
	}()
	switch r.Intn(16) {
	case 0, 1: // scalar factory with a fresh argument slice
		op = "factory/scalar"
		k := ref.Kind(1 + r.Intn(int(ref.NKinds)-1))
		h.g.P.Vars = r.Bool()
		h.g.P.MaxElems = 4
		if r.Chance(1, 8) {
			h.g.P.MaxElems = 40 + r.Intn(400) // now and then a long array or string (copy-avoidance with a size threshold)
			h.c.Class("long-scalar-item")
		}
		m := h.g.Scalar(k)
		h.g.P.MaxElems = 4
		kinds := map[string]ref.Kind{}
		modelKinds(m, kinds)
		if k == ref.A {
			real.Try(func() { h.add(&pooled{kind: "item", item: real.Build(m), kinds: kinds}, op) })
			return
		}
		args := make([]interface{}, len(m.Slots), len(m.Slots)+3)
		for j, s := range m.Slots {
			args[j] = real.SlotValue(k, s)
		}
		o := real.Try(func() { h.add(&pooled{kind: "item", item: real.Factory(k, args...), kinds: kinds}, op) })
		if !o.Panicked && len(args) > 0 {
			for j := range args {
				args[j] = "scribbled"
			}
			note("factory-args")
		}
	case 2, 3: // list sharing pooled items
		op = "factory/list"
		if r.Chance(1, 6) {
			// one fresh child list with 3..9 variables, then TWO parents built around it, each adding a variable of its own:
			// the second parent leaves the first (and the child) as they were
			k := 3 + r.Intn(7)
			ck := map[string]ref.Kind{}
			cargs := make([]interface{}, 0, k)
			for j := 0; j < k; j++ {
				nm := fmt.Sprintf("c%d_%d", i, j)
				cargs = append(cargs, nm)
				ck[nm] = ref.U1
			}
			real.Try(func() {
				child := ast.NewListNode(ast.NewUintNode(1, cargs...))
				if r.Bool() {
					child = ast.NewListNode(child)
				}
				h.add(&pooled{kind: "item", item: child, kinds: ck}, op)
				for _, own := range []string{fmt.Sprintf("pa%d", i), fmt.Sprintf("pb%d", i)} {
					pk := map[string]ref.Kind{own: ref.U1}
					for a, b := range ck {
						pk[a] = b
					}
					h.add(&pooled{kind: "item", item: ast.NewListNode(child, ast.NewUintNode(1, own)), kinds: pk}, op)
				}
			})
			note("two-parents-around-one-child")
			return
		}
		n := r.Intn(5)
		args := make([]interface{}, 0, n+2)
		used := map[string]bool{}
		lkinds := map[string]ref.Kind{}
		for j := 0; j < n; j++ {
			if p := h.pickKind("item"); p != nil && r.Chance(2, 3) {
				dup := false
				for _, v := range p.item.Variables() {
					if used[v] {
						dup = true
					}
				}
				if !dup {
					for _, v := range p.item.Variables() {
						used[v] = true
						if k, ok := p.kinds[v]; ok {
							lkinds[v] = k
						}
					}
					args = append(args, p.item)
					continue
				}
			}
			args = append(args, ast.NewUintNode(1, uint8(r.Intn(256))))
		}
		if n > 0 && r.Chance(1, 3) {
			// an ellipsis anywhere after the first item (items after it matter to how it is removed or expanded)
			pos := 1 + r.Intn(len(args))
			args = append(args, nil)
			copy(args[pos+1:], args[pos:])
			args[pos] = "..."
		}
		if n > 0 && r.Chance(1, 5) && !used["lv"] {
			args = append(args, "lv")
			lkinds["lv"] = ref.L
		}
		o := real.Try(func() { h.add(&pooled{kind: "item", item: ast.NewListNode(args...), kinds: lkinds}, op) })
		if !o.Panicked && len(args) > 0 {
			for j := range args {
				args[j] = ast.NewASCIINode("scribbled")
			}
			note("factory-args")
		}
	case 4, 5: // FillVariables on an item, then scribble the map
		op = "fill/item"
		p := h.pickKind("item")
		if p == nil {
			return
		}
		vars := p.item.Variables()
		m := map[string]interface{}{}
		one := r.Chance(1, 3) // one variable only, or a random subset
		pickOne := ""
		if one && len(vars) > 0 {
			pickOne = vars[r.Intn(len(vars))]
		}
		for _, v := range vars {
			if (one && v == pickOne) || (!one && r.Bool()) {
				if ref.IsEllipsisName(v) {
					m[v] = r.Intn(3)
				} else {
					k, known := p.kinds[v]
					m[v] = h.fillValue(k, known)
				}
			}
		}
		m["unknown"] = 5
		m2 := map[string]interface{}{}
		for k, v := range m {
			m2[k] = v
		}
		var n1 ast.ItemNode
		o := real.Try(func() { n1 = p.item.FillVariables(m) })
		for k := range m {
			delete(m, k)
		}
		m["scribbled"] = 1
		for _, v := range vars {
			m[v] = 77
		}
		if !o.Panicked {
			var n2 ast.ItemNode
			o2 := real.Try(func() { n2 = p.item.FillVariables(m2) })
			var s1, s2 string
			o1 := real.Try(func() { s1 = snapOf(&pooled{kind: "item", item: n1}) })
			if !o2.Panicked {
				s2 = snapOf(&pooled{kind: "item", item: n2})
			}
			if o2.Panicked || o1.Panicked || s1 != s2 {
				h.bad = true
				cs := h.cs
				cs.FailedStep = i
				cs.Trace = append([]string(nil), h.trace...)
				h.c.Violation("C11/result-follows-the-fill-map-after-the-call/item", fmt.Sprintf("FillVariables(m), then m overwritten, then the result read for the first time: %s %s; the same fill from an untouched copy: %s %s", clipS(s1), o1, clipS(s2), o2), cs)
				return
			}
			real.Try(func() {
				h.add(&pooled{kind: "item", item: n1, kinds: remainingKinds(p.kinds, n1.Variables())}, op)
			})
			h.c.Class("fill-accepted")
		}
		if !o.Panicked {
			note("fill-map")
		}
	case 6: // message from a pooled item, fresh system bytes
		op = "factory/message"
		p := h.pickKind("item")
		var it ast.ItemNode = ast.NewEmptyItemNode()
		var mk map[string]ref.Kind
		if p != nil && r.Chance(4, 5) {
			it = p.item
			mk = p.kinds
		}
		sys := sliceOf(r, r.Intn(7))
		f := r.Intn(256)
		w := 0
		if f%2 == 1 {
			w = r.Intn(2)
		}
		var o real.Outcome
		if len(it.Variables()) == 0 && r.Bool() {
			o = real.Try(func() {
				h.add(&pooled{kind: "data", data: ast.NewHSMSDataMessage("n", r.Intn(128), f, w, "H->E", it, r.Intn(65536), sys)}, op)
			})
			if !o.Panicked && len(sys) > 0 {
				scribbleBytes(sys)
				note("system-bytes-arg")
			}
		} else {
			wb := []int{0, 2, w}[r.Intn(3)]
			real.Try(func() {
				h.add(&pooled{kind: "data", data: ast.NewDataMessage("tmpl", r.Intn(128), f, wb, "H<-E", it), kinds: mk, base: it}, op)
			})
		}
	case 7: // SetSessionIDAndSystemBytes
		op = "producer/session"
		p := h.pickKind("data")
		if p == nil {
			return
		}
		sys := sliceOf(r, r.Intn(7))
		sid := r.Intn(65536)
		if r.Chance(1, 3) {
			// the values the message already carries, in the caller's own buffer (a re-stamp that changes nothing, or only one of the two)
			var cur []byte
			real.Try(func() { cur = p.data.SystemBytes() })
			sys = sliceOf(r, len(cur))
			copy(sys, cur)
			if r.Bool() {
				real.Try(func() {
					if v := p.data.SessionID(); v >= 0 {
						sid = v
					}
				})
			}
			note("system-bytes-arg-equal-to-the-current-ones")
		}
		o := real.Try(func() {
			h.add(&pooled{kind: "data", data: p.data.SetSessionIDAndSystemBytes(sid, sys), kinds: p.kinds, base: p.base}, op)
		})
		if !o.Panicked && len(sys) > 0 {
			scribbleBytes(sys)
			note("system-bytes-arg")
		}
	case 8: // SetWaitBit / message fill
		p := h.pickKind("data")
		if p == nil {
			return
		}
		if r.Bool() {
			op = "producer/wait"
			real.Try(func() {
				h.add(&pooled{kind: "data", data: p.data.SetWaitBit(r.Bool()), kinds: p.kinds, base: p.base}, op)
			})
			return
		}
		op = "fill/message"
		m := map[string]interface{}{}
		for _, v := range p.data.Variables() {
			if r.Bool() && !ref.IsEllipsisName(v) {
				k, known := p.kinds[v]
				m[v] = h.fillValue(k, known)
			}
		}
		// the result is not looked at before the caller's map has been overwritten, and is then compared with the result
		// of the same fill from an untouched copy of the map (a result that is computed late must not read the map late)
		m2 := map[string]interface{}{}
		for k, v := range m {
			m2[k] = v
		}
		// a sibling derived from the same message with OTHER values, and encoded before this fill's result is ever
		// looked at (whatever siblings share, it is not their encoding)
		other := map[string]interface{}{}
		for k := range m {
			kk, known := p.kinds[k]
			other[k] = h.fillValue(kk, known)
		}
		real.Try(func() { _ = p.data.FillVariables(other).SetWaitBit(false).ToBytes() })
		var n1 *ast.DataMessage
		o := real.Try(func() { n1 = p.data.FillVariables(m) })
		// the same message by another route: the item filled on its own, a fresh message around it, the same stamp
		var viaItem *ast.DataMessage
		if p.base != nil && !o.Panicked {
			m3 := map[string]interface{}{}
			for k, v := range m {
				m3[k] = v
			}
			real.Try(func() {
				w := map[string]int{"false": 0, "true": 1, "optional": 2}[p.data.WaitBit()]
				viaItem = ast.NewDataMessage(p.data.Name(), p.data.StreamCode(), p.data.FunctionCode(), w, p.data.Direction(), p.base.FillVariables(m3))
				if p.data.SessionID() != -1 {
					viaItem = viaItem.SetSessionIDAndSystemBytes(p.data.SessionID(), p.data.SystemBytes())
				}
			})
		}
		for k := range m {
			m[k] = "scribbled"
		}
		m["x"] = 1
		if len(m2) > 0 && r.Bool() {
			for k := range m {
				delete(m, k)
			}
		}
		if !o.Panicked {
			var n2 *ast.DataMessage
			o2 := real.Try(func() { n2 = p.data.FillVariables(m2) })
			var s1, s2 string
			o1 := real.Try(func() { s1 = snapOf(&pooled{kind: "data", data: n1}) })
			if !o2.Panicked {
				s2 = snapOf(&pooled{kind: "data", data: n2})
			}
			if o2.Panicked || o1.Panicked || s1 != s2 {
				h.bad = true
				cs := h.cs
				cs.FailedStep = i
				cs.Trace = append([]string(nil), h.trace...)
				h.c.Violation("C11/result-follows-the-fill-map-after-the-call/message", fmt.Sprintf("FillVariables(m), then m overwritten, then the result read for the first time: %s %s; the same fill from an untouched copy: %s %s", clipS(s1), o1, clipS(s2), o2), cs)
				return
			}
			if viaItem != nil {
				h.c.Class("message-fill-compared-with-the-item-route")
				if d := real.Snap(n1).Diff(real.Snap(viaItem)); d != "" {
					h.bad = true
					cs := h.cs
					cs.FailedStep = i
					cs.Trace = append([]string(nil), h.trace...)
					h.c.Violation("C11/message-fill-differs-from-the-item-route", fmt.Sprintf("a message filled after a sibling (same template, other values) had been filled and encoded differs from the message built around the separately filled item: %s", d), cs)
					return
				}
			}
			real.Try(func() {
				h.add(&pooled{kind: "data", data: n1, kinds: remainingKinds(p.kinds, n1.Variables())}, op)
			})
			h.c.Class("fill-accepted")
		}
		if !o.Panicked {
			note("fill-map")
		}
	case 9, 10: // observers whose results are then written to
		p := h.pickKind([]string{"item", "data", "control"}[r.Intn(3)])
		if p == nil {
			return
		}
		switch p.kind {
		case "item":
			if r.Bool() {
				op = "observe/item.ToBytes"
				b := p.item.ToBytes()
				if len(b) > 0 {
					scribbleBytes(b)
					note("returned-bytes")
				}
			} else {
				op = "observe/item.Variables"
				v := p.item.Variables()
				for j := range v {
					v[j] = "scribbled"
				}
				if len(v) > 0 {
					note("returned-variables")
				}
				if cap(v) > len(v) {
					v = append(v, "extra")
				}
			}
		case "data":
			switch r.Intn(3) {
			case 0:
				op = "observe/message.SystemBytes"
				b := p.data.SystemBytes()
				scribbleBytes(b)
				note("returned-system-bytes")
			case 1:
				op = "observe/message.ToBytes"
				b := p.data.ToBytes()
				if len(b) > 0 {
					scribbleBytes(b)
					note("returned-bytes")
				}
			default:
				op = "observe/message.Variables"
				v := p.data.Variables()
				for j := range v {
					v[j] = "scribbled"
				}
				if len(v) > 0 {
					note("returned-variables")
				}
			}
		default:
			op = "observe/control.ToBytes"
			b := p.ctl.ToBytes()
			scribbleBytes(b)
			note("returned-bytes")
		}
	case 11: // control messages
		op = "factory/control"
		sys := sliceOf(r, 4)
		hdr := sliceOf(r, 10)
		if !r.Chance(1, 4) {
			// mostly a defined control message; otherwise any PType/SType bytes (kept as given, reported as undefined)
			hdr[4] = 0
			hdr[5] = byte(r.Intn(11))
		} else if r.Bool() {
			hdr[5] = byte(r.Intn(11))
		}
		switch r.Intn(5) {
		case 0:
			real.Try(func() { h.add(&pooled{kind: "control", ctl: ast.NewHSMSControlMessage(hdr)}, op) })
			scribbleBytes(hdr)
			note("control-header-arg")
			return
		case 1:
			real.Try(func() {
				h.add(&pooled{kind: "control", ctl: ast.NewHSMSMessageSelectReq(uint16(r.Intn(65536)), sys)}, op)
			})
		case 2:
			real.Try(func() { h.add(&pooled{kind: "control", ctl: ast.NewHSMSMessageLinktestReq(sys)}, op) })
		case 3:
			real.Try(func() {
				h.add(&pooled{kind: "control", ctl: ast.NewHSMSMessageRejectReq(uint16(r.Intn(65536)), 0, 3, sys, byte(r.Intn(5)))}, op)
			})
		case 4:
			if p := h.pickKind("control"); p != nil {
				real.Try(func() {
					switch p.ctl.Type() {
					case "select.req":
						h.add(&pooled{kind: "control", ctl: ast.NewHSMSMessageSelectRsp(p.ctl, byte(r.Intn(4)))}, op)
					case "linktest.req":
						h.add(&pooled{kind: "control", ctl: ast.NewHSMSMessageLinktestRsp(p.ctl)}, op)
					}
				})
			}
		}
		scribbleBytes(sys)
		note("system-bytes-arg")
	case 12, 13: // decode a pooled message's bytes from a buffer that is then overwritten
		op = "decode/hsms"
		var b []byte
		if r.Chance(1, 3) {
			// a frame straight from the reference encoder, now and then with long strings and arrays
			me := 4
			if r.Bool() {
				me = 40 + r.Intn(400)
			}
			gg := gen.New(r, gen.Profile{MaxDepth: 2, MaxElems: me, MaxKids: 3, Budget: 4000})
			b = ref.EncodeMessage(gg.Msg(gg.Tree(), true))
			h.c.Class("decode/fresh-frame")
		} else if p := h.pickKind("data"); p != nil && r.Bool() {
			b = p.data.ToBytes()
		} else if p := h.pickKind("control"); p != nil {
			b = p.ctl.ToBytes()
		}
		if len(b) == 0 {
			return
		}
		buf := make([]byte, len(b), len(b)+16)
		copy(buf, b)
		msg, ok, _ := hsmsParse(buf)
		if ok {
			if dm, isData := msg.(*ast.DataMessage); isData {
				h.add(&pooled{kind: "data", data: dm}, op)
			} else {
				h.add(&pooled{kind: "control", ctl: msg}, op)
			}
			scribbleBytes(buf)
			note("decoder-input")
		}
	case 14: // parse the printed form
		op = "parse/sml"
		p := h.pickKind("data")
		if p == nil {
			return
		}
		msgs, errs, _, _ := smlParse(p.data.String())
		if len(errs) == 0 {
			for _, m := range msgs {
				h.add(&pooled{kind: "data", data: m}, op)
			}
		}
	case 15: // plain observers on everything (no scribbling): String/Header/Size
		op = "observe/read-only"
		for _, p := range h.pool {
			switch p.kind {
			case "item":
				_ = real.Str(p.item)
				_ = p.item.Size()
			case "data":
				_ = p.data.Header()
				_ = p.data.String()
			default:
				_ = p.ctl.Type()
			}
		}
	}
}

func c11History(c *ctx, seed uint64, steps int) map[string]int {
	r := rng.New(seed)
	h := &history{c: c, r: r, g: gen.New(r, gen.Profile{MaxElems: 4}), cs: c11Case{HistorySeed: seed, Steps: steps}, scrib: map[string]int{}}
	for i := 0; i < steps && !h.bad; i++ {
		h.step(i)
	}
	return h.scrib
}

func runC11(c *ctx) {
	c.Rule = "random API histories of 200 steps over a growing pool (<= 64 objects: items, data messages, control messages; items shared between lists and messages). Steps: every factory, FillVariables, SetWaitBit, SetSessionIDAndSystemBytes, all observers, hsms.Parse of a pooled message's bytes, sml.Parse of its printed form. After each step the harness overwrites every slice and map it passed in (factory argument slices, system bytes, control headers, fill maps, decoder input incl. spare capacity) and every slice it got back (ToBytes, Variables, SystemBytes), then re-reads every pooled object and compares it with its snapshot at creation (String, ToBytes, Variables, Size, all header accessors, Type). non-trivial = a step that scribbled over a non-empty argument or result; distinct by (operation, target, pool size, step) Also (rounds 4-8): raw control headers with any PType/SType; fill results first read after the caller's map was overwritten and compared with the same fill from an untouched copy; a sibling with other values derived and encoded before a fill result is read, and the result compared with the message built by the item route; fresh frames with long items decoded; a fresh list of 200-2200 items read by eight goroutines at once. Also (round 9): one stamp in three re-stamps with the system bytes (and session id) the message already carries, in the caller's buffer."
	c.Assume = []string{"the observable state of an object is what its public observers return"}
	nh := c.pick(1500, 40000)
	c.parallel(nh, func(i int, r *rng.R) {
		seed := r.U64()
		scr := c11History(c, seed, 200)
		for k, v := range scr {
			c.ClassN("scribbled/"+k, int64(v))
		}
		if c.WantSample() && i < 12 {
			c.Sample(map[string]interface{}{"history_seed": seed, "steps": 200, "scribbles": scr})
		}
	})
	// observers change nothing, also when several of them look at a fresh object at the same moment: every one of them
	// gets what a twin observed alone gives, and the object is what it was afterwards
	for round := 0; round < c.pick(60, 600); round++ {
		rr := rng.New(uint64(77000 + round))
		n := 200 + rr.Intn(2000)
		mk := func() ast.ItemNode {
			kids := make([]interface{}, n)
			for i := range kids {
				switch i % 3 {
				case 0:
					kids[i] = ast.NewUintNode(2, i)
				case 1:
					kids[i] = ast.NewASCIINode(fmt.Sprintf("row %d", i))
				default:
					kids[i] = ast.NewListNode(ast.NewBinaryNode(i%256), ast.NewBooleanNode(i%2 == 0))
				}
			}
			return ast.NewListNode(kids...)
		}
		shared, twin := mk(), mk()
		want := real.SnapItem(twin)
		got := make([]real.ItemSnap, 8)
		var wg sync.WaitGroup
		start := make(chan struct{})
		for g := range got {
			wg.Add(1)
			go func(g int) {
				defer wg.Done()
				<-start
				got[g] = real.SnapItem(shared)
			}(g)
		}
		close(start)
		wg.Wait()
		c.NoteBulk(8, 8)
		c.Class("shared-item-observed-by-several-goroutines")
		after := real.SnapItem(shared)
		for g := range got {
			if d := got[g].Diff(want); d != "" {
				c.Violation("C11/observer-result-differs-when-others-observe", fmt.Sprintf("a fresh list of %d items read by 8 goroutines at once: goroutine %d got %s", n, g, d), c11Case{HistorySeed: uint64(round)})
				round = 1 << 30
				break
			}
		}
		if d := after.Diff(want); d != "" && round < 1<<30 {
			c.Violation("C11/changed/item/after-concurrent-observers", fmt.Sprintf("a list of %d items differs from its twin after 8 goroutines read it at once: %s", n, d), c11Case{HistorySeed: uint64(round)})
			break
		}
	}
	c.Required = []string{"scribbled/factory-args", "scribbled/fill-map", "scribbled/system-bytes-arg", "scribbled/returned-bytes", "scribbled/returned-variables", "scribbled/returned-system-bytes", "scribbled/control-header-arg", "scribbled/decoder-input", "op/parse/sml", "fill-accepted", "message-fill-compared-with-the-item-route", "shared-item-observed-by-several-goroutines"}
}

func replayC11(c *ctx, raw json.RawMessage) {
	var cs c11Case
	if json.Unmarshal(raw, &cs) == nil && cs.Steps > 0 {
		c11History(c, cs.HistorySeed, cs.Steps)
	}
}
