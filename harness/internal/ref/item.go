// Package ref is the reference model: a small, naive statement of SECS-II
// items, the SEMI E5/E37 wire format, the SML print form and the variable /
// ellipsis semantics. It never calls the code under test.
package ref

import (
	"fmt"
	"math"
	"math/big"
	"strconv"
	"strings"
)

type Kind int

const (
	L Kind = iota
	B
	BOOLEAN
	A
	I8
	I1
	I2
	I4
	F8
	F4
	U8
	U1
	U2
	U4
	NKinds
)

var kindName = [...]string{"L", "B", "BOOLEAN", "A", "I8", "I1", "I2", "I4", "F8", "F4", "U8", "U1", "U2", "U4"}
var kindCode = [...]byte{0o00, 0o10, 0o11, 0o20, 0o30, 0o31, 0o32, 0o34, 0o40, 0o44, 0o50, 0o51, 0o52, 0o54}
var kindWidth = [...]int{1, 1, 1, 1, 8, 1, 2, 4, 8, 4, 8, 1, 2, 4}

// HookName is the type name used by the repository's header routine (hook H1).
var kindHook = [...]string{"list", "binary", "boolean", "ascii", "i8", "i1", "i2", "i4", "f8", "f4", "u8", "u1", "u2", "u4"}

func (k Kind) String() string   { return kindName[k] }
func (k Kind) Code() byte       { return kindCode[k] }
func (k Kind) Width() int       { return kindWidth[k] }
func (k Kind) HookName() string { return kindHook[k] }
func (k Kind) IsInt() bool      { return k == I1 || k == I2 || k == I4 || k == I8 }
func (k Kind) IsUint() bool     { return k == U1 || k == U2 || k == U4 || k == U8 }
func (k Kind) IsFloat() bool    { return k == F4 || k == F8 }

func KindByCode(c byte) (Kind, bool) {
	for k := L; k < NKinds; k++ {
		if kindCode[k] == c {
			return k, true
		}
	}
	return 0, false
}

func KindByName(s string) (Kind, bool) {
	for k := L; k < NKinds; k++ {
		if kindName[k] == s {
			return k, true
		}
	}
	return 0, false
}

const MaxBytes = 1<<24 - 1

// Slot is one element of a scalar array: a value or a variable name.
// I kinds use Int; U kinds and B use Uint; BOOLEAN uses Uint (0/1);
// F4 uses the 32-bit pattern in Uint; F8 the 64-bit pattern.
type Slot struct {
	Var  string `json:"var,omitempty"`
	Int  int64  `json:"i,omitempty"`
	Uint uint64 `json:"u,omitempty"`
}

// Item is a node of the model tree. For L, Children is used and a child is
// either an item, a list variable (Var) or an ellipsis (Var starting with "...").
// For A either Str (values 0..127) or AVar with bounds (AMax -1 = unbounded).
type Item struct {
	Kind     Kind    `json:"k"`
	Children []*Item `json:"c,omitempty"`
	Slots    []Slot  `json:"s,omitempty"`
	Str      []byte  `json:"str,omitempty"`
	AVar     string  `json:"avar,omitempty"`
	AMin     int     `json:"amin,omitempty"`
	AMax     int     `json:"amax,omitempty"`
	// a pseudo child of a list: list variable or ellipsis
	Var string `json:"var,omitempty"`
}

func IsEllipsisName(s string) bool {
	if !strings.HasPrefix(s, "...") {
		return false
	}
	r := s[3:]
	if r == "" {
		return true
	}
	if len(r) < 3 || r[0] != '[' || r[len(r)-1] != ']' {
		return false
	}
	for _, c := range r[1 : len(r)-1] {
		if c < '0' || c > '9' {
			return false
		}
	}
	return true
}

// VarNameOK: letter or underscore, then letters/digits/underscore, then any
// number of [digits] groups. (ASCII only - the package documentation says
// "alphanumerics and the underbar".)
func VarNameOK(s string) bool {
	if s == "" {
		return false
	}
	i := 0
	c := s[0]
	if !(c == '_' || (c >= 'a' && c <= 'z') || (c >= 'A' && c <= 'Z')) {
		return false
	}
	for i < len(s) {
		c = s[i]
		if c == '_' || (c >= 'a' && c <= 'z') || (c >= 'A' && c <= 'Z') || (c >= '0' && c <= '9') {
			i++
			continue
		}
		break
	}
	for i < len(s) {
		if s[i] != '[' {
			return false
		}
		i++
		j := i
		for i < len(s) && s[i] >= '0' && s[i] <= '9' {
			i++
		}
		if i == j || i >= len(s) || s[i] != ']' {
			return false
		}
		i++
	}
	return true
}

func (it *Item) IsVarChild() bool { return it.Var != "" }

// Vars lists the variable names in print order.
func (it *Item) Vars() []string {
	var out []string
	it.vars(&out)
	return out
}

func (it *Item) vars(out *[]string) {
	if it.Var != "" {
		*out = append(*out, it.Var)
		return
	}
	switch it.Kind {
	case L:
		for _, c := range it.Children {
			c.vars(out)
		}
	case A:
		if it.AVar != "" {
			*out = append(*out, it.AVar)
		}
	default:
		for _, s := range it.Slots {
			if s.Var != "" {
				*out = append(*out, s.Var)
			}
		}
	}
}

// Size is the element count reported by the API (-1 for an unfilled ASCII variable).
func (it *Item) Size() int {
	switch it.Kind {
	case L:
		return len(it.Children)
	case A:
		if it.AVar != "" {
			return -1
		}
		return len(it.Str)
	}
	return len(it.Slots)
}

func (it *Item) Clone() *Item {
	c := *it
	if it.Children != nil {
		c.Children = make([]*Item, len(it.Children))
		for i, ch := range it.Children {
			c.Children[i] = ch.Clone()
		}
	}
	if it.Slots != nil {
		c.Slots = append([]Slot(nil), it.Slots...)
	}
	if it.Str != nil {
		c.Str = append([]byte(nil), it.Str...)
	}
	return &c
}

// NodeCount counts nodes (for budgets).
func (it *Item) NodeCount() int {
	n := 1
	for _, c := range it.Children {
		n += c.NodeCount()
	}
	return n
}

// ---------------------------------------------------------------- encoding

func lenBytes(n int) []byte {
	switch {
	case n <= 0xFF:
		return []byte{byte(n)}
	case n <= 0xFFFF:
		return []byte{byte(n >> 8), byte(n)}
	default:
		return []byte{byte(n >> 16), byte(n >> 8), byte(n)}
	}
}

// Header is the format byte plus the shortest length field.
func Header(k Kind, length int) []byte {
	lb := lenBytes(length)
	return append([]byte{k.Code()<<2 | byte(len(lb))}, lb...)
}

// HeaderN is the format byte plus an nlen-byte length field (nlen 1..3), minimal or not.
func HeaderN(k Kind, length, nlen int) []byte {
	out := []byte{k.Code()<<2 | byte(nlen)}
	for i := nlen - 1; i >= 0; i-- {
		out = append(out, byte(length>>(8*uint(i))))
	}
	return out
}

// Encode gives the SECS-II bytes of a variable-free item.
func Encode(it *Item) []byte {
	var out []byte
	encode(it, &out)
	return out
}

func encode(it *Item, out *[]byte) {
	switch it.Kind {
	case L:
		*out = append(*out, Header(L, len(it.Children))...)
		for _, c := range it.Children {
			encode(c, out)
		}
	case A:
		*out = append(*out, Header(A, len(it.Str))...)
		*out = append(*out, it.Str...)
	default:
		w := it.Kind.Width()
		*out = append(*out, Header(it.Kind, w*len(it.Slots))...)
		for _, s := range it.Slots {
			var bits uint64
			if it.Kind.IsInt() {
				bits = uint64(s.Int)
			} else {
				bits = s.Uint
			}
			for i := w - 1; i >= 0; i-- {
				*out = append(*out, byte(bits>>(8*uint(i))))
			}
		}
	}
}

// Msg is the model of a data message.
type Msg struct {
	Name     string  `json:"name"`
	Stream   int     `json:"s"`
	Function int     `json:"f"`
	W        int     `json:"w"` // 0 false, 1 true, 2 optional
	Dir      string  `json:"dir"`
	Item     *Item   `json:"item,omitempty"` // nil: no item
	Session  int     `json:"session"`        // -1 unset
	Sys      [4]byte `json:"sys"`
}

func (m *Msg) Complete() bool {
	return m.W != 2 && m.Session != -1 && (m.Item == nil || len(m.Item.Vars()) == 0)
}

func EncodeMessage(m *Msg) []byte {
	var body []byte
	if m.Item != nil {
		body = Encode(m.Item)
	}
	n := len(body) + 10
	out := []byte{byte(n >> 24), byte(n >> 16), byte(n >> 8), byte(n)}
	b2 := byte(m.Stream)
	if m.W == 1 {
		b2 |= 0x80
	}
	out = append(out, byte(m.Session>>8), byte(m.Session), b2, byte(m.Function), 0, 0)
	out = append(out, m.Sys[:]...)
	return append(out, body...)
}

// ---------------------------------------------------------------- float helpers

// F32FromF64Bits rounds a finite float64 (given by bits) to float32 bits with
// round-to-nearest-even, using integer arithmetic only. ok=false on overflow
// to infinity.
func F32FromF64Bits(b uint64) (uint32, bool) {
	sign := uint32(b>>63) << 31
	exp := int((b >> 52) & 0x7FF)
	man := b & (1<<52 - 1)
	if exp == 0x7FF {
		return 0, false
	}
	if exp == 0 && man == 0 {
		return sign, true
	}
	// value = m * 2^(e) with m a 53-bit integer (or less for subnormals)
	var m uint64
	var e int
	if exp == 0 {
		m, e = man, -1074
	} else {
		m, e = man|1<<52, exp-1075
	}
	// normalise m to have bit 52 set
	for m < 1<<52 {
		m <<= 1
		e--
	}
	// unbiased exponent of the leading bit
	ue := e + 52
	// target: 24 significant bits when ue >= -126, fewer for float32 subnormals
	var shift int // number of low bits to drop from the 53-bit m
	if ue >= -126 {
		shift = 53 - 24
	} else {
		shift = 53 - 24 + (-126 - ue)
	}
	if shift > 54 {
		return sign, true // rounds to zero
	}
	var q, rem, half uint64
	if shift == 54 {
		// everything is below half an ulp unless exactly... m < 2^53 so m/2^54 < 1/2
		return sign, true
	}
	q = m >> uint(shift)
	rem = m & (1<<uint(shift) - 1)
	half = 1 << uint(shift-1)
	if rem > half || (rem == half && q&1 == 1) {
		q++
	}
	if ue >= -126 {
		// q has 24 bits, possibly 25 after carry
		if q == 1<<24 {
			q >>= 1
			ue++
		}
		if ue > 127 {
			return 0, false
		}
		return sign | uint32(ue+127)<<23 | uint32(q&(1<<23-1)), true
	}
	// subnormal: q < 2^23, or == 2^23 which is the smallest normal
	return sign | uint32(q), true
}

func F64FromF32Bits(b uint32) float64 { return float64(math.Float32frombits(b)) }

// ---------------------------------------------------------------- printing

// Seg is a piece of the printed form: literal text, or a float token that is
// compared by value.
type Seg struct {
	Text  string
	Float bool
	Kind  Kind   // F4/F8 when Float
	Bits  uint64 // expected stored bit pattern
}

type printer struct {
	segs []Seg
	cur  strings.Builder
}

func (p *printer) lit(s string) { p.cur.WriteString(s) }

func (p *printer) flush() {
	if p.cur.Len() > 0 {
		p.segs = append(p.segs, Seg{Text: p.cur.String()})
		p.cur.Reset()
	}
}

func (p *printer) float(k Kind, bits uint64) {
	p.flush()
	p.segs = append(p.segs, Seg{Float: true, Kind: k, Bits: bits})
}

func PrintSegs(it *Item) []Seg {
	p := &printer{}
	p.item(it, 0)
	p.flush()
	return p.segs
}

func asciiBody(str []byte) string {
	var sb strings.Builder
	in := false
	for _, ch := range str {
		if ch < 32 || ch == 127 || ch == '"' {
			// control characters and the double quote are written as character codes
			if in {
				in = false
				sb.WriteString(`"`)
			}
			fmt.Fprintf(&sb, " 0x%02X", ch)
		} else {
			if !in {
				in = true
				sb.WriteString(` "`)
			}
			sb.WriteByte(ch)
		}
	}
	if in {
		sb.WriteString(`"`)
	}
	return sb.String()
}

func (p *printer) item(it *Item, level int) {
	ind := strings.Repeat("  ", level)
	switch it.Kind {
	case L:
		if len(it.Children) == 0 {
			p.lit(ind + "<L[0]>")
			return
		}
		det := true
		for _, c := range it.Children {
			if c.Var != "" {
				det = false
			}
		}
		if det {
			p.lit(fmt.Sprintf("%s<L[%d]\n", ind, len(it.Children)))
		} else {
			p.lit(ind + "<L\n")
		}
		for _, c := range it.Children {
			switch {
			case c.Var != "":
				n := c.Var
				if IsEllipsisName(n) {
					n = "..."
				}
				p.lit(ind + "  " + n + "\n")
			case c.Kind == L:
				p.item(c, level+1)
				p.lit("\n")
			default:
				p.lit(ind + "  ")
				p.item(c, 0)
				p.lit("\n")
			}
		}
		p.lit(ind + ">")
	case A:
		if it.AVar != "" {
			ls := ""
			switch {
			case it.AMin == 0 && it.AMax == -1:
			case it.AMin == it.AMax:
				ls = fmt.Sprintf("[%d]", it.AMax)
			case it.AMax == -1:
				ls = fmt.Sprintf("[%d..]", it.AMin)
			default:
				ls = fmt.Sprintf("[%d..%d]", it.AMin, it.AMax)
			}
			p.lit("<A" + ls + " " + it.AVar + ">")
			return
		}
		if len(it.Str) == 0 {
			p.lit("<A[0]>")
			return
		}
		p.lit("<A" + asciiBody(it.Str) + ">")
	default:
		if len(it.Slots) == 0 {
			p.lit("<" + it.Kind.String() + "[0]>")
			return
		}
		p.lit(fmt.Sprintf("<%s[%d]", it.Kind, len(it.Slots)))
		for _, s := range it.Slots {
			p.lit(" ")
			if s.Var != "" {
				p.lit(s.Var)
				continue
			}
			switch {
			case it.Kind == B:
				p.lit("0b" + strconv.FormatUint(s.Uint, 2))
			case it.Kind == BOOLEAN:
				if s.Uint != 0 {
					p.lit("T")
				} else {
					p.lit("F")
				}
			case it.Kind.IsInt():
				p.lit(strconv.FormatInt(s.Int, 10))
			case it.Kind.IsUint():
				p.lit(strconv.FormatUint(s.Uint, 10))
			default:
				p.float(it.Kind, s.Uint)
			}
		}
		p.lit(">")
	}
}

// floatText renders a float slot (used where an exact text is needed, e.g. to
// build SML inputs). It is the shortest decimal that reads back to the value.
func FloatText(k Kind, bits uint64) string {
	if k == F4 {
		return strconv.FormatFloat(float64(math.Float32frombits(uint32(bits))), 'g', -1, 32)
	}
	return strconv.FormatFloat(math.Float64frombits(bits), 'g', -1, 64)
}

// Print renders the item with floats in shortest form.
func Print(it *Item) string {
	var sb strings.Builder
	for _, s := range PrintSegs(it) {
		if s.Float {
			sb.WriteString(FloatText(s.Kind, s.Bits))
		} else {
			sb.WriteString(s.Text)
		}
	}
	return sb.String()
}

func HeaderText(m *Msg) string {
	h := fmt.Sprintf("S%dF%d", m.Stream, m.Function)
	switch m.W {
	case 1:
		h += " W"
	case 2:
		h += " [W]"
	}
	h += " " + m.Dir
	if m.Name != "" {
		h += " " + m.Name
	}
	return h
}

func MsgSegs(m *Msg) []Seg {
	p := &printer{}
	p.lit(HeaderText(m) + "\n")
	if m.Item != nil {
		p.item(m.Item, 0)
		p.lit("\n")
	}
	p.lit(".")
	p.flush()
	return p.segs
}

func PrintMsg(m *Msg) string {
	var sb strings.Builder
	for _, s := range MsgSegs(m) {
		if s.Float {
			sb.WriteString(FloatText(s.Kind, s.Bits))
		} else {
			sb.WriteString(s.Text)
		}
	}
	return sb.String()
}

// FloatTokenDenotes reports whether a printed float token, read as an exact
// decimal and rounded to the item's width, is the stored bit pattern.
func FloatTokenDenotes(tok string, k Kind, bits uint64) bool {
	f, _, err := big.ParseFloat(tok, 10, 2000, big.ToNearestEven)
	if err != nil {
		return false
	}
	if k == F4 {
		v, _ := f.Float32()
		return math.Float32bits(v) == uint32(bits)
	}
	v, _ := f.Float64()
	return math.Float64bits(v) == bits
}

// MatchPrinted compares a real printed form with the model's segments.
// It returns "" on agreement, otherwise a description.
func MatchPrinted(real string, segs []Seg) string {
	pos := 0
	for i, s := range segs {
		if !s.Float {
			if !strings.HasPrefix(real[pos:], s.Text) {
				return fmt.Sprintf("printed form differs at byte %d: want %q, got %q", pos, clip(s.Text), clip(real[pos:]))
			}
			pos += len(s.Text)
			continue
		}
		end := pos
		for end < len(real) && real[end] != ' ' && real[end] != '>' && real[end] != '\n' {
			end++
		}
		tok := real[pos:end]
		if !FloatTokenDenotes(tok, s.Kind, s.Bits) {
			return fmt.Sprintf("float token %q (segment %d) does not denote stored %s bits %#x", tok, i, s.Kind, s.Bits)
		}
		pos = end
	}
	if pos != len(real) {
		return fmt.Sprintf("printed form has trailing text %q", clip(real[pos:]))
	}
	return ""
}

func clip(s string) string {
	if len(s) > 80 {
		return s[:80] + "…"
	}
	return s
}

func Float64Bits(v float64) uint64 { return math.Float64bits(v) }
