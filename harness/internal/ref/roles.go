package ref

// Byte roles of an encoded message, for fault enumeration (C03).
type Role byte

const (
	RMsgLen Role = iota
	RSession
	RStream
	RFunction
	RPType
	RSType
	RSys
	RFormat
	RLength
	RPayload
)

var roleName = [...]string{"msglen", "session", "stream", "function", "ptype", "stype", "sys", "format", "length", "payload"}

func (r Role) String() string { return roleName[r] }

// LenForm chooses the number of length bytes for an item whose minimal form
// needs min bytes (1..3). Return a value in [min,3].
type LenForm func(k Kind, length, min int) int

func Minimal(k Kind, length, min int) int { return min }

func minLenBytes(n int) int {
	switch {
	case n <= 0xFF:
		return 1
	case n <= 0xFFFF:
		return 2
	}
	return 3
}

// EncodeRoles encodes a complete message, with the chosen length forms, and
// tags every byte with its role.
func EncodeRoles(m *Msg, lf LenForm) ([]byte, []Role) {
	var body []byte
	var broles []Role
	if m.Item != nil {
		encodeRoles(m.Item, lf, &body, &broles)
	}
	n := len(body) + 10
	out := []byte{byte(n >> 24), byte(n >> 16), byte(n >> 8), byte(n)}
	roles := []Role{RMsgLen, RMsgLen, RMsgLen, RMsgLen}
	b2 := byte(m.Stream)
	if m.W == 1 {
		b2 |= 0x80
	}
	out = append(out, byte(m.Session>>8), byte(m.Session), b2, byte(m.Function), 0, 0)
	roles = append(roles, RSession, RSession, RStream, RFunction, RPType, RSType)
	out = append(out, m.Sys[:]...)
	roles = append(roles, RSys, RSys, RSys, RSys)
	return append(out, body...), append(roles, broles...)
}

func encodeRoles(it *Item, lf LenForm, out *[]byte, roles *[]Role) {
	put := func(b []byte, r Role) {
		*out = append(*out, b...)
		for range b {
			*roles = append(*roles, r)
		}
	}
	hdr := func(k Kind, length int) {
		nl := lf(k, length, minLenBytes(length))
		h := HeaderN(k, length, nl)
		put(h[:1], RFormat)
		put(h[1:], RLength)
	}
	switch it.Kind {
	case L:
		hdr(L, len(it.Children))
		for _, c := range it.Children {
			encodeRoles(c, lf, out, roles)
		}
	case A:
		hdr(A, len(it.Str))
		put(it.Str, RPayload)
	default:
		w := it.Kind.Width()
		hdr(it.Kind, w*len(it.Slots))
		for _, s := range it.Slots {
			var bits uint64
			if it.Kind.IsInt() {
				bits = uint64(s.Int)
			} else {
				bits = s.Uint
			}
			for i := w - 1; i >= 0; i-- {
				put([]byte{byte(bits >> (8 * uint(i)))}, RPayload)
			}
		}
	}
}

// PatchLen rewrites the 4-byte message length of b to match the bytes present.
func PatchLen(b []byte) []byte {
	if len(b) < 4 {
		return b
	}
	n := len(b) - 4
	b[0], b[1], b[2], b[3] = byte(n>>24), byte(n>>16), byte(n>>8), byte(n)
	return b
}
