package ref

import (
	"fmt"
	"strconv"
)

// PNode is what the harness's own scanner reads from a printed item.
type PNode struct {
	Type     string
	Declared string // text inside [...] after the type, "" when absent
	Elems    int    // number of elements printed (characters for A literals)
	VarOnly  bool   // ASCII item holding a variable
	Vars     []string
	Children []*PNode
}

type scanner struct {
	s   string
	pos int
}

func (sc *scanner) ws() {
	for sc.pos < len(sc.s) && (sc.s[sc.pos] == ' ' || sc.s[sc.pos] == '\n') {
		sc.pos++
	}
}

func isIdentStart(c byte) bool {
	return c == '_' || (c >= 'a' && c <= 'z') || (c >= 'A' && c <= 'Z')
}
func isIdentChar(c byte) bool { return isIdentStart(c) || (c >= '0' && c <= '9') }

// ScanPrinted parses the printed form of one item (as produced by String()).
// Quoted strings run to the next double quote (SML has no escapes).
func ScanPrinted(s string) (*PNode, error) {
	sc := &scanner{s: s}
	sc.ws()
	n, err := sc.item()
	if err != nil {
		return nil, err
	}
	sc.ws()
	if sc.pos != len(s) {
		return nil, fmt.Errorf("trailing text at %d: %q", sc.pos, clip(s[sc.pos:]))
	}
	return n, nil
}

func (sc *scanner) ident() string {
	st := sc.pos
	for sc.pos < len(sc.s) && isIdentChar(sc.s[sc.pos]) {
		sc.pos++
	}
	// array-like suffixes
	for sc.pos < len(sc.s) && sc.s[sc.pos] == '[' {
		j := sc.pos + 1
		for j < len(sc.s) && sc.s[j] >= '0' && sc.s[j] <= '9' {
			j++
		}
		if j == sc.pos+1 || j >= len(sc.s) || sc.s[j] != ']' {
			break
		}
		sc.pos = j + 1
	}
	return sc.s[st:sc.pos]
}

func (sc *scanner) item() (*PNode, error) {
	if sc.pos >= len(sc.s) || sc.s[sc.pos] != '<' {
		return nil, fmt.Errorf("expected '<' at %d", sc.pos)
	}
	sc.pos++
	st := sc.pos
	for sc.pos < len(sc.s) && isIdentChar(sc.s[sc.pos]) {
		sc.pos++
	}
	n := &PNode{Type: sc.s[st:sc.pos]}
	if _, ok := KindByName(n.Type); !ok {
		return nil, fmt.Errorf("unknown item type %q at %d", n.Type, st)
	}
	if sc.pos < len(sc.s) && sc.s[sc.pos] == '[' {
		j := sc.pos
		for j < len(sc.s) && sc.s[j] != ']' {
			j++
		}
		if j >= len(sc.s) {
			return nil, fmt.Errorf("unclosed size at %d", sc.pos)
		}
		n.Declared = sc.s[sc.pos+1 : j]
		sc.pos = j + 1
	}
	for {
		sc.ws()
		if sc.pos >= len(sc.s) {
			return nil, fmt.Errorf("unclosed item %s", n.Type)
		}
		c := sc.s[sc.pos]
		switch {
		case c == '>':
			sc.pos++
			return n, nil
		case c == '<':
			if n.Type != "L" {
				return nil, fmt.Errorf("nested item inside %s", n.Type)
			}
			ch, err := sc.item()
			if err != nil {
				return nil, err
			}
			n.Children = append(n.Children, ch)
			n.Vars = append(n.Vars, ch.Vars...)
			n.Elems++
		case c == '"':
			if n.Type != "A" {
				return nil, fmt.Errorf("quoted string inside %s", n.Type)
			}
			j := sc.pos + 1
			for j < len(sc.s) && sc.s[j] != '"' {
				j++
			}
			if j >= len(sc.s) {
				return nil, fmt.Errorf("unclosed quote at %d", sc.pos)
			}
			n.Elems += j - sc.pos - 1
			sc.pos = j + 1
		case c == '.' && sc.pos+2 < len(sc.s) && sc.s[sc.pos:sc.pos+3] == "...":
			if n.Type != "L" {
				return nil, fmt.Errorf("ellipsis inside %s", n.Type)
			}
			sc.pos += 3
			n.Vars = append(n.Vars, "...")
			n.Elems++
		case isIdentStart(c):
			id := sc.ident()
			if n.Type == "BOOLEAN" && (id == "T" || id == "F") {
				n.Elems++
				break
			}
			n.Vars = append(n.Vars, id)
			if n.Type == "A" {
				n.VarOnly = true
			} else {
				n.Elems++
			}
		default:
			// a number token
			st := sc.pos
			for sc.pos < len(sc.s) && sc.s[sc.pos] != ' ' && sc.s[sc.pos] != '>' && sc.s[sc.pos] != '\n' {
				sc.pos++
			}
			if sc.pos == st {
				return nil, fmt.Errorf("unexpected %q at %d", c, sc.pos)
			}
			n.Elems++
		}
	}
}

// CheckDeclared verifies, recursively, that every printed size equals the
// number of elements printed (lists without a size must hold a variable).
func (n *PNode) CheckDeclared() string {
	if n.Type == "A" {
		if n.VarOnly {
			return ""
		}
		if n.Declared != "" {
			if d, err := strconv.Atoi(n.Declared); err != nil || d != n.Elems {
				return fmt.Sprintf("<A[%s]> prints %d characters", n.Declared, n.Elems)
			}
		}
		return ""
	}
	if n.Declared != "" {
		if d, err := strconv.Atoi(n.Declared); err != nil || d != n.Elems {
			return fmt.Sprintf("<%s[%s]> prints %d elements", n.Type, n.Declared, n.Elems)
		}
	} else if n.Type != "L" {
		return fmt.Sprintf("<%s> printed without a size", n.Type)
	}
	for _, c := range n.Children {
		if d := c.CheckDeclared(); d != "" {
			return d
		}
	}
	return ""
}
