package ref

import "fmt"

// Expand is the documented ellipsis semantics (property C10): filling the
// ellipsis of a list with n repeats the items before it n+1 times, items
// after it appear once; variable names in copy j get the suffix [j] after the
// suffixes of the enclosing expanded ellipses (outermost first) when n > 0;
// nested ellipses are expanded in every copy; ellipses without a count stay.
// Ellipsis names in the result are left as they were; callers compare them
// by position (see NormEllipsis).
func Expand(it *Item, counts map[string]int) *Item {
	e := &expander{counts: counts}
	return e.list(it)
}

type expander struct {
	counts map[string]int
	idx    []int
}

func (e *expander) suffix() string {
	s := ""
	for _, i := range e.idx {
		s += fmt.Sprintf("[%d]", i)
	}
	return s
}

func (e *expander) list(it *Item) *Item {
	out := &Item{Kind: L}
	p, n := -1, 0
	for i, c := range it.Children {
		if c.Var != "" && IsEllipsisName(c.Var) {
			if v, ok := e.counts[c.Var]; ok {
				p, n = i, v
			}
		}
	}
	if p < 0 || n == 0 {
		for i, c := range it.Children {
			if i == p {
				continue
			}
			out.Children = append(out.Children, e.rename(c))
		}
		return out
	}
	e.idx = append(e.idx, 0)
	for j := 0; j <= n; j++ {
		e.idx[len(e.idx)-1] = j
		for _, c := range it.Children[:p] {
			out.Children = append(out.Children, e.rename(c))
		}
	}
	e.idx = e.idx[:len(e.idx)-1]
	for _, c := range it.Children[p+1:] {
		out.Children = append(out.Children, e.rename(c))
	}
	return out
}

func (e *expander) rename(c *Item) *Item {
	if c.Var != "" {
		if IsEllipsisName(c.Var) {
			return &Item{Var: c.Var}
		}
		return &Item{Var: c.Var + e.suffix()}
	}
	switch c.Kind {
	case L:
		return e.list(c)
	case A:
		n := c.Clone()
		if n.AVar != "" {
			n.AVar += e.suffix()
		}
		return n
	}
	n := c.Clone()
	for i := range n.Slots {
		if n.Slots[i].Var != "" {
			n.Slots[i].Var += e.suffix()
		}
	}
	return n
}

// NormEllipsis replaces every ellipsis name in a variable list by its ordinal
// ("...#0", "...#1", ...). Normalisation 1 of DESIGN.md.
func NormEllipsis(vars []string) []string {
	out := make([]string, len(vars))
	k := 0
	for i, v := range vars {
		if IsEllipsisName(v) {
			out[i] = fmt.Sprintf("...#%d", k)
			k++
		} else {
			out[i] = v
		}
	}
	return out
}

// EllipsisNamesOK checks the naming rule for the ellipses that remain: unique
// and well formed; either one ellipsis called "..." or "...[0]", or exactly
// "...[0]" .. "...[k-1]" in order of appearance. renumbered=false (nothing was
// expanded, names are the caller's own) only asks for uniqueness.
func EllipsisNamesOK(vars []string, renumbered bool) string {
	var el []string
	seen := map[string]bool{}
	for _, v := range vars {
		if seen[v] {
			return "duplicate variable name " + v
		}
		seen[v] = true
		if IsEllipsisName(v) {
			el = append(el, v)
		}
	}
	if !renumbered || len(el) == 0 {
		return ""
	}
	if len(el) == 1 {
		if el[0] == "..." || el[0] == "...[0]" {
			return ""
		}
		return "single remaining ellipsis is called " + el[0]
	}
	for i, v := range el {
		if v != fmt.Sprintf("...[%d]", i) {
			return fmt.Sprintf("remaining ellipsis #%d is called %s", i, v)
		}
	}
	return ""
}

// Val is a fill-in value at model level.
type Val struct {
	Item *Item  `json:"item,omitempty"` // for a list variable
	Str  []byte `json:"str,omitempty"`  // for an ASCII variable
	IsS  bool   `json:"iss,omitempty"`
	Slot *Slot  `json:"slot,omitempty"` // for a scalar slot (in the kind's own representation)
	K    Kind   `json:"k,omitempty"`    // kind of the slot's item (tells how to hand the value to the API)
}

// Fill substitutes values for variables in an ellipsis-free template. Keys
// that name no variable are ignored. ok=false when an ASCII value violates
// the variable's bounds.
func Fill(it *Item, sub map[string]Val) (*Item, bool) {
	ok := true
	out := fill(it, sub, &ok)
	return out, ok
}

func fill(it *Item, sub map[string]Val, ok *bool) *Item {
	if it.Var != "" {
		if v, has := sub[it.Var]; has && v.Item != nil {
			return v.Item.Clone()
		}
		return &Item{Var: it.Var}
	}
	switch it.Kind {
	case L:
		n := &Item{Kind: L}
		for _, c := range it.Children {
			n.Children = append(n.Children, fill(c, sub, ok))
		}
		return n
	case A:
		if it.AVar != "" {
			if v, has := sub[it.AVar]; has && v.IsS {
				if len(v.Str) < it.AMin || (it.AMax != -1 && len(v.Str) > it.AMax) {
					*ok = false
				}
				return &Item{Kind: A, Str: append([]byte{}, v.Str...)}
			}
		}
		return it.Clone()
	}
	n := it.Clone()
	for i := range n.Slots {
		if n.Slots[i].Var != "" {
			if v, has := sub[n.Slots[i].Var]; has && v.Slot != nil {
				n.Slots[i] = *v.Slot
			}
		}
	}
	return n
}
