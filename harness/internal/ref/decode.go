package ref

import "math"

// Decoded is what the strict reference decoder returns.
type Decoded struct {
	Control bool
	Header  [10]byte // control message header
	Msg     *Msg     // data message (Name "", Dir "H<->E")
	Why     string   // reason of rejection
}

// ControlType is the table of HSMS control message kinds.
func ControlType(ptype, stype byte) string {
	if ptype != 0 {
		return "undefined"
	}
	switch stype {
	case 1:
		return "select.req"
	case 2:
		return "select.rsp"
	case 3:
		return "deselect.req"
	case 4:
		return "deselect.rsp"
	case 5:
		return "linktest.req"
	case 6:
		return "linktest.rsp"
	case 7:
		return "reject.req"
	case 9:
		return "separate.req"
	}
	return "undefined"
}

// Decode accepts exactly the well-formed HSMS messages (property C03).
func Decode(b []byte) (*Decoded, bool) {
	d := &Decoded{}
	if len(b) < 14 {
		d.Why = "shorter than length+header"
		return d, false
	}
	n := uint64(b[0])<<24 | uint64(b[1])<<16 | uint64(b[2])<<8 | uint64(b[3])
	if n != uint64(len(b)-4) {
		d.Why = "declared message length differs from bytes present"
		return d, false
	}
	h := b[4:14]
	if h[4] != 0 {
		d.Why = "PType not 0"
		return d, false
	}
	st := h[5]
	if st != 0 {
		if ControlType(0, st) == "undefined" {
			d.Why = "undefined SType"
			return d, false
		}
		if len(b) != 14 {
			d.Why = "control message with text"
			return d, false
		}
		d.Control = true
		copy(d.Header[:], h)
		return d, true
	}
	m := &Msg{Name: "", Dir: "H<->E", Stream: int(h[2] & 0x7F), Function: int(h[3]), W: int(h[2] >> 7),
		Session: int(h[0])<<8 | int(h[1])}
	copy(m.Sys[:], h[6:10])
	if m.W == 1 && m.Function%2 == 0 {
		d.Why = "W-bit on even function"
		return d, false
	}
	text := b[14:]
	if len(text) > 0 {
		it, rest, why := decodeItem(text)
		if it == nil {
			d.Why = why
			return d, false
		}
		if len(rest) != 0 {
			d.Why = "bytes left over after the item"
			return d, false
		}
		m.Item = it
	}
	d.Msg = m
	return d, true
}

// decodeItem is iterative over list nesting so that deep chains do not need a
// deep Go stack in the oracle.
func decodeItem(b []byte) (*Item, []byte, string) {
	type frame struct {
		it   *Item
		want int
	}
	var stack []frame
	var root *Item
	for {
		if len(b) < 1 {
			return nil, nil, "truncated: no format byte"
		}
		k, ok := KindByCode(b[0] >> 2)
		if !ok {
			return nil, nil, "undefined format code"
		}
		nl := int(b[0] & 3)
		if nl == 0 {
			return nil, nil, "zero length bytes"
		}
		if len(b) < 1+nl {
			return nil, nil, "truncated length bytes"
		}
		length := 0
		for i := 0; i < nl; i++ {
			length = length<<8 | int(b[1+i])
		}
		b = b[1+nl:]
		var done *Item
		if k == L {
			it := &Item{Kind: L}
			if length == 0 {
				done = it
			} else {
				// every child needs at least 2 bytes
				if length > len(b)/2 {
					return nil, nil, "list declares more children than bytes can hold"
				}
				it.Children = make([]*Item, 0, length)
				stack = append(stack, frame{it, length})
			}
		} else {
			if length > len(b) {
				return nil, nil, "truncated payload"
			}
			p := b[:length]
			b = b[length:]
			it := &Item{Kind: k}
			w := k.Width()
			if length%w != 0 {
				return nil, nil, "length not a multiple of the element width"
			}
			switch {
			case k == A:
				for _, c := range p {
					if c > 127 {
						return nil, nil, "non 7-bit character"
					}
				}
				it.Str = append([]byte(nil), p...)
			default:
				it.Slots = make([]Slot, length/w)
				for i := range it.Slots {
					var bits uint64
					for j := 0; j < w; j++ {
						bits = bits<<8 | uint64(p[i*w+j])
					}
					switch {
					case k == BOOLEAN:
						if bits != 0 {
							bits = 1
						}
						it.Slots[i].Uint = bits
					case k.IsInt():
						sh := uint(64 - 8*w)
						it.Slots[i].Int = int64(bits<<sh) >> sh
					case k == F4:
						f := math.Float32frombits(uint32(bits))
						if f != f || math.IsInf(float64(f), 0) {
							return nil, nil, "non-finite F4"
						}
						it.Slots[i].Uint = bits
					case k == F8:
						f := math.Float64frombits(bits)
						if f != f || math.IsInf(f, 0) {
							return nil, nil, "non-finite F8"
						}
						it.Slots[i].Uint = bits
					default:
						it.Slots[i].Uint = bits
					}
				}
			}
			done = it
		}
		// attach finished items upwards
		for done != nil {
			if len(stack) == 0 {
				root = done
				return root, b, ""
			}
			top := &stack[len(stack)-1]
			top.it.Children = append(top.it.Children, done)
			if len(top.it.Children) == top.want {
				done = top.it
				stack = stack[:len(stack)-1]
			} else {
				done = nil
			}
		}
	}
}
