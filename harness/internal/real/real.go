// Package real is the bridge from the model to the code under test: it calls
// the repository's factories and observers and records what they did.
package real

import (
	"fmt"
	"math"
	"runtime"

	"verifharness/internal/ref"

	"github.com/wolimst/lib-secs2-hsms-go/pkg/ast"
)

// Outcome of one API call made under recover().
type Outcome struct {
	Panicked bool
	Runtime  bool   // the panic value is a runtime.Error (index out of range, nil deref, failed assertion)
	Text     string // panic text
}

func (o Outcome) String() string {
	if !o.Panicked {
		return "returned"
	}
	if o.Runtime {
		return "runtime-panic: " + o.Text
	}
	return "refused: " + o.Text
}

// Try runs f and reports whether it panicked. No panic escapes.
func Try(f func()) (o Outcome) {
	defer func() {
		if r := recover(); r != nil {
			o.Panicked = true
			if _, ok := r.(runtime.Error); ok {
				o.Runtime = true
			}
			o.Text = fmt.Sprint(r)
		}
	}()
	f()
	return
}

// Str prints an item the way users see it.
func Str(it ast.ItemNode) string { return fmt.Sprint(it) }

// SlotValue turns a model slot into the natural Go value for the factory.
func SlotValue(k ref.Kind, s ref.Slot) interface{} {
	if s.Var != "" {
		return s.Var
	}
	switch {
	case k == ref.B:
		return int(s.Uint)
	case k == ref.BOOLEAN:
		return s.Uint != 0
	case k.IsInt():
		return s.Int
	case k.IsUint():
		return s.Uint
	case k == ref.F4:
		return math.Float32frombits(uint32(s.Uint))
	case k == ref.F8:
		return math.Float64frombits(s.Uint)
	}
	panic("SlotValue: bad kind")
}

// Sub maps variable names to raw Go values put in place of the variable
// during direct construction (C09).
type Sub map[string]interface{}

// Build constructs the real item for a model item through the factories.
// Panics of the factories propagate (wrap in Try).
func Build(it *ref.Item) ast.ItemNode { return BuildSub(it, nil) }

func BuildSub(it *ref.Item, sub Sub) ast.ItemNode {
	switch it.Kind {
	case ref.L:
		args := make([]interface{}, len(it.Children))
		for i, c := range it.Children {
			if c.Var != "" {
				if v, ok := sub[c.Var]; ok {
					args[i] = v
				} else {
					args[i] = c.Var
				}
			} else {
				args[i] = BuildSub(c, sub)
			}
		}
		return ast.NewListNode(args...)
	case ref.A:
		if it.AVar != "" {
			if v, ok := sub[it.AVar]; ok {
				s, isStr := v.(string)
				if !isStr {
					panic("direct: non-string for ASCII")
				}
				if len(s) < it.AMin || (it.AMax != -1 && len(s) > it.AMax) {
					panic("direct: string length outside the declared bounds")
				}
				return ast.NewASCIINode(s)
			}
			return ast.NewASCIINodeVariable(it.AVar, it.AMin, it.AMax)
		}
		return ast.NewASCIINode(string(it.Str))
	}
	args := make([]interface{}, len(it.Slots))
	for i, s := range it.Slots {
		if s.Var != "" {
			if v, ok := sub[s.Var]; ok {
				args[i] = v
				continue
			}
		}
		args[i] = SlotValue(it.Kind, s)
	}
	return Factory(it.Kind, args...)
}

// Factory dispatches to the repository's factory for a scalar kind.
func Factory(k ref.Kind, args ...interface{}) ast.ItemNode {
	switch k {
	case ref.B:
		return ast.NewBinaryNode(args...)
	case ref.BOOLEAN:
		return ast.NewBooleanNode(args...)
	case ref.I1, ref.I2, ref.I4, ref.I8:
		return ast.NewIntNode(k.Width(), args...)
	case ref.U1, ref.U2, ref.U4, ref.U8:
		return ast.NewUintNode(k.Width(), args...)
	case ref.F4, ref.F8:
		return ast.NewFloatNode(k.Width(), args...)
	case ref.L:
		return ast.NewListNode(args...)
	}
	panic("Factory: bad kind")
}

// BuildMsg constructs the real message for a model message.
func BuildMsg(m *ref.Msg) *ast.DataMessage {
	var item ast.ItemNode
	if m.Item == nil {
		item = ast.NewEmptyItemNode()
	} else {
		item = Build(m.Item)
	}
	return BuildMsgWith(m, item)
}

func BuildMsgWith(m *ref.Msg, item ast.ItemNode) *ast.DataMessage {
	if m.Session != -1 && m.W != 2 && len(item.Variables()) == 0 {
		return ast.NewHSMSDataMessage(m.Name, m.Stream, m.Function, m.W, m.Dir, item, m.Session, m.Sys[:])
	}
	msg := ast.NewDataMessage(m.Name, m.Stream, m.Function, m.W, m.Dir, item)
	if m.Session != -1 {
		msg = msg.SetSessionIDAndSystemBytes(m.Session, m.Sys[:])
	}
	return msg
}

// MsgSnap is every observable of a data message.
type MsgSnap struct {
	Name      string   `json:"name"`
	Stream    int      `json:"stream"`
	Function  int      `json:"function"`
	WaitBit   string   `json:"wait"`
	Direction string   `json:"dir"`
	Session   int      `json:"session"`
	Sys       string   `json:"sys"`
	Header    string   `json:"header"`
	Type      string   `json:"type"`
	Vars      []string `json:"vars"`
	Str       string   `json:"string"`
	Bytes     string   `json:"bytes"`
	Panic     string   `json:"panic,omitempty"`
}

// Snap reads every observer. An observer that panics is an observation (field Panic), not a crash of the harness.
func Snap(m *ast.DataMessage) (s MsgSnap) {
	defer func() {
		if r := recover(); r != nil {
			s.Panic = fmt.Sprint("observer panicked: ", r)
		}
		anomaly(s.Panic)
	}()
	s.Name, s.Stream, s.Function, s.WaitBit = m.Name(), m.StreamCode(), m.FunctionCode(), m.WaitBit()
	s.Direction, s.Session, s.Sys = m.Direction(), m.SessionID(), fmt.Sprintf("%x", m.SystemBytes())
	s.Header, s.Type = m.Header(), m.Type()
	s.Vars = append([]string{}, m.Variables()...)
	s.Str = m.String()
	raw := m.ToBytes()
	s.Bytes = string(raw)
	// the bytes handed out belong to the caller: encoding another message must not change them
	_ = probeMsg.ToBytes()
	_ = probeItem.ToBytes()
	if string(raw) != s.Bytes {
		s.Panic = fmt.Sprintf("the bytes ToBytes() returned (%x) changed when another message was encoded (now %x)", clip(s.Bytes), clip(string(raw)))
		return s
	}
	// ... and the caller may do with them what it likes: the next encoding is the same as the first
	for i := range raw {
		raw[i] ^= 0xA5
	}
	if again := m.ToBytes(); string(again) != s.Bytes {
		s.Panic = fmt.Sprintf("ToBytes() returned %x, the caller overwrote that slice, and the next ToBytes() returns %x", clip(s.Bytes), clip(string(again)))
	}
	return s
}

// OnAnomaly, when set, is told about every anomaly a snapshot notices by itself (an observer that panicked, returned
// bytes that changed under the caller, an encoding that follows what the caller did to an earlier result). It is only
// called in that case, so it adds no synchronisation to a normal run.
var OnAnomaly func(what string)

func anomaly(p string) {
	if p != "" && OnAnomaly != nil {
		OnAnomaly(p)
	}
}

// probeMsg / probeItem: small complete objects, built once, only ever read (String/ToBytes) afterwards.
var probeItem = ast.NewListNode(ast.NewUintNode(2, 0xABCD), ast.NewASCIINode("probe"), ast.NewListNode(ast.NewBinaryNode(1, 2, 3)))
var probeMsg = ast.NewHSMSDataMessage("probe", 99, 1, 1, "H<->E", probeItem, 4660, []byte{0xDE, 0xAD, 0xBE, 0xEF})

func (a MsgSnap) Diff(b MsgSnap) string {
	switch {
	case a.Panic != b.Panic:
		return fmt.Sprintf("%q vs %q", a.Panic, b.Panic)
	case a.Name != b.Name:
		return fmt.Sprintf("Name %q vs %q", a.Name, b.Name)
	case a.Stream != b.Stream:
		return fmt.Sprintf("StreamCode %d vs %d", a.Stream, b.Stream)
	case a.Function != b.Function:
		return fmt.Sprintf("FunctionCode %d vs %d", a.Function, b.Function)
	case a.WaitBit != b.WaitBit:
		return fmt.Sprintf("WaitBit %s vs %s", a.WaitBit, b.WaitBit)
	case a.Direction != b.Direction:
		return fmt.Sprintf("Direction %s vs %s", a.Direction, b.Direction)
	case a.Session != b.Session:
		return fmt.Sprintf("SessionID %d vs %d", a.Session, b.Session)
	case a.Sys != b.Sys:
		return fmt.Sprintf("SystemBytes %s vs %s", a.Sys, b.Sys)
	case a.Header != b.Header:
		return fmt.Sprintf("Header %q vs %q", a.Header, b.Header)
	case a.Type != b.Type:
		return fmt.Sprintf("Type %q vs %q", a.Type, b.Type)
	case !EqStrs(a.Vars, b.Vars):
		return fmt.Sprintf("Variables %q vs %q", a.Vars, b.Vars)
	case a.Str != b.Str:
		return fmt.Sprintf("String %q vs %q", clip(a.Str), clip(b.Str))
	case a.Bytes != b.Bytes:
		return fmt.Sprintf("ToBytes %x vs %x", clip(a.Bytes), clip(b.Bytes))
	}
	return ""
}

func clip(s string) string {
	if len(s) > 200 {
		return s[:200] + "…"
	}
	return s
}

func EqStrs(a, b []string) bool {
	if len(a) != len(b) {
		return false
	}
	for i := range a {
		if a[i] != b[i] {
			return false
		}
	}
	return true
}

// ItemSnap is every observable of an item.
type ItemSnap struct {
	Str   string
	Bytes string
	Vars  []string
	Size  int
	Panic string
}

func SnapItem(it ast.ItemNode) (s ItemSnap) {
	defer func() {
		if r := recover(); r != nil {
			s.Panic = fmt.Sprint("observer panicked: ", r)
		}
		anomaly(s.Panic)
	}()
	s.Str = Str(it)
	raw := it.ToBytes()
	s.Bytes = string(raw)
	s.Vars = append([]string{}, it.Variables()...)
	s.Size = it.Size()
	_ = probeItem.ToBytes()
	_ = probeMsg.ToBytes()
	if string(raw) != s.Bytes {
		s.Panic = fmt.Sprintf("the bytes ToBytes() returned (%x) changed when another item was encoded (now %x)", clip(s.Bytes), clip(string(raw)))
		return s
	}
	for i := range raw {
		raw[i] ^= 0xA5
	}
	if again := it.ToBytes(); string(again) != s.Bytes {
		s.Panic = fmt.Sprintf("ToBytes() returned %x, the caller overwrote that slice, and the next ToBytes() returns %x", clip(s.Bytes), clip(string(again)))
	}
	return s
}

func (a ItemSnap) Diff(b ItemSnap) string {
	switch {
	case a.Panic != b.Panic:
		return fmt.Sprintf("%q vs %q", a.Panic, b.Panic)
	case a.Str != b.Str:
		return fmt.Sprintf("String %q vs %q", clip(a.Str), clip(b.Str))
	case a.Size != b.Size:
		return fmt.Sprintf("Size %d vs %d", a.Size, b.Size)
	case !EqStrs(a.Vars, b.Vars):
		return fmt.Sprintf("Variables %q vs %q", a.Vars, b.Vars)
	case a.Bytes != b.Bytes:
		return fmt.Sprintf("ToBytes %x vs %x", clip(a.Bytes), clip(b.Bytes))
	}
	return ""
}
