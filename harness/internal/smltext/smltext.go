// Package smltext builds SML texts from token sequences: the same tokens can
// be rendered in different layouts (gaps, comments, letter case) while the
// renderer keeps the (line, column) of every token, and item trees can be
// written with any of the documented literal forms.
package smltext

import (
	"fmt"
	"math"
	"math/big"
	"strconv"
	"strings"
	"unicode/utf8"

	"verifharness/internal/ref"
	"verifharness/internal/rng"
)

type Class int

const (
	Word     Class = iota // needs a gap to its neighbours unless the neighbour is a bracket
	Bracket               // '<', '>', size, quoted string, '.'
	Header                // header tokens: always separated by a gap
	HeaderKW              // wait bit and direction keywords: like Header, but may stand directly before '<' or '.'
)

type Tok struct {
	S     string
	Class Class
	// Case variants: alternative spellings that differ only in letter case
	// (keywords, type names, number prefixes, hex digits, exponent).
	Alt []string
}

func W(s string) Tok { return Tok{S: s, Class: Word} }
func B(s string) Tok { return Tok{S: s, Class: Bracket} }
func H(s string) Tok { return Tok{S: s, Class: Header} }

// GapRequired reports whether tokens a and b must be separated by white space.
func GapRequired(a, b Tok) bool {
	if a.Class == HeaderKW && (b.S == "<" || b.S == ".") && b.Class == Bracket {
		return false // a wait bit or direction keyword directly before the item or the terminator: "S1F1 W<L>." "S1F1 W."
	}
	if a.Class == Header || b.Class == Header || a.Class == HeaderKW || b.Class == HeaderKW {
		return true
	}
	if a.Class == Bracket || b.Class == Bracket {
		// a '.' directly before a digit would read as a number
		if a.S == "." && len(b.S) > 0 && b.S[0] >= '0' && b.S[0] <= '9' {
			return true
		}
		// a number ending in '.' or a lone '.' before '..' forms
		if strings.HasSuffix(a.S, ".") && strings.HasPrefix(b.S, ".") {
			return true
		}
		return false
	}
	return true
}

type Pos struct{ Line, Col int }

// Rendered is a text together with the position of every token.
type Rendered struct {
	Text string
	Tok  []Pos // start of token i
	End  Pos   // position of the end of the input
}

// Render concatenates lead + tok[0] + gap[0] + tok[1] + ... + gap[n-1].
// spell[i] (optional) replaces the spelling of token i.
func Render(toks []Tok, lead string, gaps []string, spell []string) Rendered {
	var sb strings.Builder
	r := Rendered{Tok: make([]Pos, len(toks))}
	line, col := 1, 1
	adv := func(s string) {
		sb.WriteString(s)
		for len(s) > 0 {
			c, n := utf8.DecodeRuneInString(s)
			s = s[n:]
			if c == '\n' {
				line++
				col = 1
			} else {
				col++
			}
		}
	}
	adv(lead)
	for i, t := range toks {
		r.Tok[i] = Pos{line, col}
		s := t.S
		if spell != nil && spell[i] != "" {
			s = spell[i]
		}
		adv(s)
		if i < len(gaps) {
			adv(gaps[i])
		}
	}
	r.End = Pos{line, col}
	r.Text = sb.String()
	return r
}

// ---- layouts

var blanks = []string{" ", "\t", "\n", "\r\n", "  ", " \t ", "\n\n", "\n  ", "\r\n\t", " \r\n "}

// comment bodies: punctuation, several scripts, and every kind of final byte,
// in particular characters whose last UTF-8 byte is 0x85 or 0xA0 and trailing
// blanks that a byte-wise trimmer may confuse.
var commentBodies = []string{
	"", " ", "plain comment", " S1F1 W <L[2] <A x>> .", "<", ">", ".", "...", "// nested // slashes", "/", "a/b",
	"комментарий", "注释です", "تعليق", "😀 emoji", "à", "voilà", "Å", "é", "ends in nbsp ", "ends in nel\u0085", "tab at end\t", "vt at end\v",
	"ff at end\f", "ls at end ", "spaces at end   ", "\tleading tab", "x y", " ", "\u0085", "àà", "ÅÅÅ", "0xFF", "[3..5]", "T F", "1e5",
	"ends with cr\r", "\v", "\f", "\f\v \t", "èàùÅ \u0085",
	// round 11: a comment may end in any Unicode white-space code point (and blanks after it); all of it is comment
	"ends in ideographic space\u3000", "\u3000", "ideographic then blanks\u3000 \t", "ends in em space\u2003", "ends in thin space\u2009 ",
	"ends in ogham space\u1680", "ends in narrow nbsp\u202f", "ends in math space\u205f\t", "ends in line separator\u2028", "ends in paragraph separator\u2029",
	"ends in zero width space\u200b", "ends in bom\ufeff", "ends in en quad\u2000", "ends in hair space\u200a\r",
}
var commentBodiesWithQuote = []string{"say \"hi\"", "\"", "unbalanced \" quote", "\"\"", "<A \"x\">"}

type LayoutOpts struct {
	Comments    bool
	QuoteInCmt  bool // comment bodies may contain a double quote
	FinalNoEOL  bool // the text may end in a comment without a line break
	AddOptional bool // optional gaps may be non-empty
}

// Layout draws gaps for a token sequence. Required gaps are non-empty; a gap
// holding a comment ends with a line break (except possibly the final one).
func Layout(r *rng.R, toks []Tok, o LayoutOpts) (lead string, gaps []string, stats map[string]int) {
	stats = map[string]int{}
	gap := func(required, last bool, prev string) string {
		var sb strings.Builder
		if required || (o.AddOptional && r.Chance(1, 3)) {
			b := blanks[r.Intn(len(blanks))]
			sb.WriteString(b)
			stats["gap/"+strconv.Quote(b)]++
		}
		if o.Comments && r.Chance(1, 5) {
			// one comment, sometimes a block of several comment lines in a row
			n := 1
			if r.Chance(1, 4) {
				n = 2 + r.Intn(4)
				stats["comment-block"]++
			}
			for k := 0; k < n; k++ {
				pool := commentBodies
				if o.QuoteInCmt && r.Chance(1, 4) {
					pool = commentBodiesWithQuote
				}
				body := pool[r.Intn(len(pool))]
				if sb.Len() == 0 {
					// a comment may be glued to the token before it, unless that token ends in '/'
					// (then "x/" + "//c" would read as "x" + "///c")
					if strings.HasSuffix(prev, "/") || r.Chance(2, 3) {
						sb.WriteString(" ")
					} else {
						stats["comment/glued-to-token"]++
					}
				}
				sb.WriteString("//" + body)
				if last && k == n-1 && o.FinalNoEOL && r.Bool() {
					stats["comment/final-without-eol"]++
				} else if r.Chance(1, 4) {
					sb.WriteString("\r\n")
				} else {
					sb.WriteString("\n")
				}
				stats["comment"]++
				if len(body) > 0 {
					stats[fmt.Sprintf("comment-final-byte/%#02x", body[len(body)-1])]++
				} else {
					stats["comment/empty"]++
				}
				if k < n-1 && r.Chance(1, 3) {
					sb.WriteString(blanks[r.Intn(len(blanks))])
				}
			}
			if r.Chance(1, 3) {
				sb.WriteString(blanks[r.Intn(len(blanks))])
			}
		}
		return sb.String()
	}
	if r.Chance(1, 3) {
		lead = gap(false, false, "")
	}
	gaps = make([]string, len(toks))
	for i := range toks {
		if i == len(toks)-1 {
			gaps[i] = gap(false, true, toks[i].S)
			break
		}
		gaps[i] = gap(GapRequired(toks[i], toks[i+1]), false, toks[i].S)
	}
	return
}

// Canonical gives single-blank gaps where required and nothing elsewhere.
func Canonical(toks []Tok) []string {
	gaps := make([]string, len(toks))
	for i := 0; i+1 < len(toks); i++ {
		if GapRequired(toks[i], toks[i+1]) {
			gaps[i] = " "
		}
	}
	return gaps
}

// CaseSpelling picks, for every token with case variants, one of them.
func CaseSpelling(r *rng.R, toks []Tok) []string {
	out := make([]string, len(toks))
	for i, t := range toks {
		if len(t.Alt) > 0 && r.Chance(2, 3) {
			out[i] = t.Alt[r.Intn(len(t.Alt))]
		}
	}
	return out
}

func caseAlts(s string) []string {
	lo, up := strings.ToLower(s), strings.ToUpper(s)
	var out []string
	if lo != s {
		out = append(out, lo)
	}
	if up != s {
		out = append(out, up)
	}
	// mixed
	mixed := []byte(s)
	changed := false
	for i := range mixed {
		if i%2 == 1 {
			c := mixed[i]
			if c >= 'a' && c <= 'z' {
				mixed[i] = c - 32
				changed = true
			} else if c >= 'A' && c <= 'Z' {
				mixed[i] = c + 32
				changed = true
			}
		}
	}
	if changed {
		out = append(out, string(mixed))
	}
	return out
}

// KW is a keyword-like token with its case variants.
func KW(s string, c Class) Tok { return Tok{S: s, Class: c, Alt: caseAlts(s)} }

// ---- literal forms

type NumStyle struct {
	R        *rng.R
	Variety  bool // use hex/octal/binary/sign/exponent forms; false = canonical decimal
	NonCanon *int // incremented when a non-canonical form is used
	// Replace, when set, may substitute the literal written for slot i of item it
	// (i = -1: called once after the item's last value; returned tokens are appended).
	Replace func(it *ref.Item, slot int) []Tok
}

func (st *NumStyle) note() {
	if st.NonCanon != nil {
		*st.NonCanon++
	}
}

// IntLit writes an integer in one of the documented forms.
func (st *NumStyle) IntLit(v *big.Int, signed bool) Tok {
	if !st.Variety || st.R.Chance(1, 3) {
		return W(v.String())
	}
	st.note()
	abs := new(big.Int).Abs(v)
	sign := ""
	if v.Sign() < 0 {
		sign = "-"
	} else if signed && st.R.Chance(1, 4) {
		sign = "+"
	}
	var body string
	switch st.R.Intn(4) {
	case 0:
		body = "0x" + abs.Text(16)
	case 1:
		body = "0b" + abs.Text(2)
	case 2:
		body = "0o" + abs.Text(8)
	default:
		body = abs.Text(10)
	}
	t := W(sign + body)
	t.Alt = caseAlts(t.S)
	if st.R.Bool() && len(t.Alt) > 0 {
		t.S, t.Alt = t.Alt[st.R.Intn(len(t.Alt))], append(t.Alt, t.S)
	}
	return t
}

// FloatLit writes a float value (given by bits of width k) as a decimal that
// rounds to exactly that value: shortest form, exact expansion, or exponent form.
func (st *NumStyle) FloatLit(k ref.Kind, bits uint64) Tok {
	var f float64
	bitsz := 64
	if k == ref.F4 {
		f = float64(math.Float32frombits(uint32(bits)))
		bitsz = 32
	} else {
		f = math.Float64frombits(bits)
	}
	if !st.Variety || st.R.Chance(1, 3) {
		return W(strconv.FormatFloat(f, 'g', -1, bitsz))
	}
	st.note()
	var s string
	switch st.R.Intn(5) {
	case 0:
		s = strconv.FormatFloat(f, 'e', -1, bitsz)
	case 1:
		// exact decimal expansion (can be long for tiny values: cap the length)
		s = new(big.Float).SetFloat64(f).Text('f', -1)
		if len(s) > 60 {
			s = new(big.Float).SetFloat64(f).Text('e', 40)
		}
	case 2:
		s = strconv.FormatFloat(f, 'E', -1, bitsz)
	case 3:
		s = strconv.FormatFloat(f, 'e', 25, 64) // more digits than needed
	default:
		s = strconv.FormatFloat(f, 'g', -1, bitsz)
		if f >= 0 && !math.Signbit(f) && st.R.Bool() {
			s = "+" + s
		}
	}
	t := W(s)
	t.Alt = caseAlts(s)
	return t
}

// ASCIIToks writes a character string as quoted runs and/or character codes.
func (st *NumStyle) ASCIIToks(str []byte) []Tok {
	var out []Tok
	i := 0
	for i < len(str) {
		c := str[i]
		quotable := c >= 32 && c < 127 && c != '"'
		if quotable && !(st.Variety && st.R.Chance(1, 6)) {
			j := i
			for j < len(str) && str[j] >= 32 && str[j] < 127 && str[j] != '"' {
				j++
				if st.Variety && st.R.Chance(1, 8) {
					break
				}
			}
			out = append(out, B(`"`+string(str[i:j])+`"`))
			i = j
			continue
		}
		// character code
		var s string
		if !st.Variety {
			s = fmt.Sprintf("0x%02X", c)
		} else {
			st.note()
			switch st.R.Intn(4) {
			case 0:
				s = fmt.Sprintf("0x%02X", c)
			case 1:
				s = fmt.Sprintf("%d", c)
			case 2:
				s = fmt.Sprintf("0b%b", c)
			default:
				s = fmt.Sprintf("0o%o", c)
			}
		}
		t := W(s)
		t.Alt = caseAlts(s)
		out = append(out, t)
		i++
	}
	return out
}

// SizeTok is the canonical size token "[n]".
func SizeTok(n int) Tok { return B(fmt.Sprintf("[%d]", n)) }

// ItemToks writes a model item as tokens. withSize adds the [n] declaration
// where the printed form has one.
func ItemToks(st *NumStyle, it *ref.Item, withSize bool) []Tok {
	var out []Tok
	if it.Var != "" {
		n := it.Var
		if ref.IsEllipsisName(n) {
			if st.Variety && st.R.Bool() {
				return []Tok{W(n)}
			}
			return []Tok{W("...")}
		}
		return []Tok{W(n)}
	}
	out = append(out, B("<"), KW(it.Kind.String(), Word))
	switch it.Kind {
	case ref.L:
		det := true
		for _, c := range it.Children {
			if c.Var != "" {
				det = false
			}
		}
		if withSize && det {
			out = append(out, SizeTok(len(it.Children)))
		}
		for _, c := range it.Children {
			out = append(out, ItemToks(st, c, withSize)...)
		}
		if st.Replace != nil {
			out = append(out, st.Replace(it, -1)...)
		}
	case ref.A:
		if it.AVar != "" {
			switch {
			case it.AMin == 0 && it.AMax == -1:
			case it.AMin == it.AMax:
				out = append(out, B(fmt.Sprintf("[%d]", it.AMax)))
			case it.AMax == -1:
				out = append(out, B(fmt.Sprintf("[%d..]", it.AMin)))
			case it.AMin == 0 && st.Variety && st.R.Bool():
				out = append(out, B(fmt.Sprintf("[..%d]", it.AMax)))
			default:
				out = append(out, B(fmt.Sprintf("[%d..%d]", it.AMin, it.AMax)))
			}
			out = append(out, W(it.AVar))
		} else {
			if withSize && (len(it.Str) == 0 || (st.Variety && st.R.Chance(1, 3))) {
				out = append(out, SizeTok(len(it.Str)))
			}
			out = append(out, st.ASCIIToks(it.Str)...)
			if st.Replace != nil {
				out = append(out, st.Replace(it, -1)...)
			}
		}
	default:
		if withSize && (len(it.Slots) == 0 || !st.Variety || st.R.Chance(2, 3)) {
			out = append(out, SizeTok(len(it.Slots)))
		}
		for si, s := range it.Slots {
			if st.Replace != nil {
				if rep := st.Replace(it, si); rep != nil {
					out = append(out, rep...)
					continue
				}
			}
			if s.Var != "" {
				out = append(out, W(s.Var))
				continue
			}
			switch {
			case it.Kind == ref.BOOLEAN:
				if s.Uint != 0 {
					out = append(out, KW("T", Word))
				} else {
					out = append(out, KW("F", Word))
				}
			case it.Kind == ref.B:
				if st.Variety {
					out = append(out, st.IntLit(new(big.Int).SetUint64(s.Uint), false))
				} else {
					out = append(out, W("0b"+strconv.FormatUint(s.Uint, 2)))
				}
			case it.Kind.IsInt():
				out = append(out, st.IntLit(big.NewInt(s.Int), true))
			case it.Kind.IsUint():
				out = append(out, st.IntLit(new(big.Int).SetUint64(s.Uint), false))
			default:
				out = append(out, st.FloatLit(it.Kind, s.Uint))
			}
		}
		if st.Replace != nil {
			out = append(out, st.Replace(it, -1)...)
		}
	}
	return append(out, B(">"))
}

// MsgToks writes a model message as tokens.
func MsgToks(st *NumStyle, m *ref.Msg, withSize bool) []Tok {
	sf := fmt.Sprintf("S%dF%d", m.Stream, m.Function)
	out := []Tok{KW(sf, Header)}
	switch m.W {
	case 1:
		out = append(out, KW("W", HeaderKW))
	case 2:
		out = append(out, KW("[W]", HeaderKW))
	}
	if m.Dir != "" {
		out = append(out, KW(m.Dir, HeaderKW))
	}
	if m.Name != "" {
		out = append(out, H(m.Name))
	}
	if m.Item != nil {
		it := ItemToks(st, m.Item, withSize)
		out = append(out, it...)
	}
	return append(out, B("."))
}

// ParseDiag splits "Ln x, Col y: text".
func ParseDiag(s string) (Pos, string, bool) {
	var p Pos
	if !strings.HasPrefix(s, "Ln ") {
		return p, "", false
	}
	rest := s[3:]
	i := strings.Index(rest, ", Col ")
	if i < 0 {
		return p, "", false
	}
	l, err := strconv.Atoi(rest[:i])
	if err != nil {
		return p, "", false
	}
	rest = rest[i+6:]
	j := strings.Index(rest, ": ")
	if j < 0 {
		return p, "", false
	}
	cnum, err := strconv.Atoi(rest[:j])
	if err != nil {
		return p, "", false
	}
	return Pos{l, cnum}, rest[j+2:], true
}

func init() {
	// comment bodies with a carriage return that is not part of a line end: a line comment ends at the line feed only
	commentBodies = append(commentBodies, "was:\r<U1 2>", "progress 10%\r20%", "a\rb", "\rS9F9 W .", "x\r\ry", "cr then blank\r ", "\r", "<\r>")
}
