// Package mon holds what every monitor shares: the event counters, the
// distinct-case set, three-valued verdicts, the known-findings matcher, replay
// files and the evidence writer.
package mon

import (
	"encoding/json"
	"fmt"
	"os"
	"path/filepath"
	"regexp"
	"sort"
	"strings"
	"sync"
	"sync/atomic"
	"time"
)

type Known struct {
	Property  string `json:"property"`
	Signature string `json:"signature"` // exact signature, or a regular expression when it starts with "re:"
	Status    string `json:"status"`    // "known" or "fixed"
	What      string `json:"what"`
	Commit    string `json:"commit,omitempty"`
	Repro     string `json:"reproducer,omitempty"`
}

type Violation struct {
	Signature string      `json:"signature"`
	What      string      `json:"what"`
	Case      interface{} `json:"case"`
	Replay    string      `json:"replay"`
	Known     bool        `json:"known"`
	Count     int64       `json:"count"`
}

type Run struct {
	ID, Tier, Level string
	Seed            int64
	Root            string // /verif
	Out             string // output root for evidence/ and replays/
	start           time.Time

	evals    int64
	nontriv  int64 // counted-by-construction distinct non-trivial cases (exhaustive sweeps)
	shards   [64]shard
	mu       sync.Mutex
	samples  []interface{}
	classes  map[string]int64
	viol     map[string]*Violation
	violSeq  []string
	incon    []string
	known    []Known
	maxima   map[string]float64
	Rule     string
	Assume   []string
	Exhaust  bool
	Extra    map[string]interface{}
	MinEvals int64    // fewer observed events than this => inconclusive
	Required []string // classes that must have been observed at least once
}

type shard struct {
	mu sync.Mutex
	m  map[uint64]struct{}
}

func NewRun(id, tier string, seed int64, level string) *Run {
	root := os.Getenv("VERIF_ROOT")
	if root == "" {
		root = "/verif"
	}
	out := os.Getenv("VERIF_OUT") // where evidence/ and replays/ go (default: the verif root); mutant runs use a scratch directory
	if out == "" {
		out = root
	}
	r := &Run{ID: id, Tier: tier, Seed: seed, Level: level, Root: root, Out: out, start: time.Now(),
		classes: map[string]int64{}, viol: map[string]*Violation{}, maxima: map[string]float64{},
		Extra: map[string]interface{}{}, MinEvals: 1}
	for i := range r.shards {
		r.shards[i].m = map[uint64]struct{}{}
	}
	r.loadKnown()
	return r
}

func (r *Run) loadKnown() {
	b, err := os.ReadFile(filepath.Join(r.Root, "known_findings.json"))
	if err != nil {
		return
	}
	var all struct {
		Findings []Known `json:"findings"`
	}
	if err := json.Unmarshal(b, &all); err != nil {
		r.Inconclusive("known_findings.json unreadable: " + err.Error())
		return
	}
	for _, k := range all.Findings {
		if k.Property == r.ID {
			r.known = append(r.known, k)
		}
	}
}

// Eval counts n executed cases.
func (r *Run) Eval(n int64) { atomic.AddInt64(&r.evals, n) }

// Note records one case by hash; only non-trivial cases enter the distinct set.
func (r *Run) Note(h uint64, nontrivial bool) {
	atomic.AddInt64(&r.evals, 1)
	if !nontrivial {
		return
	}
	s := &r.shards[h&63]
	s.mu.Lock()
	s.m[h] = struct{}{}
	s.mu.Unlock()
}

// NoteBulk counts cases that are distinct by construction (exhaustive sweep of
// a finite space, every point enumerated exactly once).
func (r *Run) NoteBulk(evals, nontrivial int64) {
	atomic.AddInt64(&r.evals, evals)
	atomic.AddInt64(&r.nontriv, nontrivial)
}

func (r *Run) Class(name string) { r.ClassN(name, 1) }
func (r *Run) ClassN(name string, n int64) {
	r.mu.Lock()
	r.classes[name] += n
	r.mu.Unlock()
}

func (r *Run) ClassCount(name string) int64 {
	r.mu.Lock()
	defer r.mu.Unlock()
	return r.classes[name]
}

func (r *Run) Max(name string, v float64) {
	r.mu.Lock()
	if old, ok := r.maxima[name]; !ok || v > old {
		r.maxima[name] = v
	}
	r.mu.Unlock()
}

// Sample keeps the first few written-out cases for the evidence file.
func (r *Run) Sample(v interface{}) {
	r.mu.Lock()
	if len(r.samples) < 12 {
		r.samples = append(r.samples, v)
	}
	r.mu.Unlock()
}

func (r *Run) WantSample() bool {
	r.mu.Lock()
	defer r.mu.Unlock()
	return len(r.samples) < 12
}

func (r *Run) Inconclusive(msg string) {
	r.mu.Lock()
	r.incon = append(r.incon, msg)
	r.mu.Unlock()
}

func (r *Run) matchKnown(sig string) *Known {
	for i := range r.known {
		k := &r.known[i]
		if k.Status != "known" {
			continue
		}
		if strings.HasPrefix(k.Signature, "re:") {
			if ok, _ := regexp.MatchString(k.Signature[3:], sig); ok {
				return k
			}
		} else if k.Signature == sig {
			return k
		}
	}
	return nil
}

// Violation records a refuting observation. sig is the stable signature
// (oracle + input class) used for de-duplication and known-finding matching;
// c is the JSON-serialisable case that replays it.
func (r *Run) Violation(sig, what string, c interface{}) {
	r.mu.Lock()
	defer r.mu.Unlock()
	if v, ok := r.viol[sig]; ok {
		v.Count++
		return
	}
	if len(r.viol) >= 40 {
		// keep counting under a catch-all so the run still fails
		sig = r.ID + "/more-violations-suppressed"
		if v, ok := r.viol[sig]; ok {
			v.Count++
			return
		}
	}
	v := &Violation{Signature: sig, What: what, Case: c, Count: 1}
	v.Known = r.matchKnown(sig) != nil
	r.viol[sig] = v
	r.violSeq = append(r.violSeq, sig)
	// replay file
	dir := filepath.Join(r.Out, "replays")
	os.MkdirAll(dir, 0o755)
	name := fmt.Sprintf("%s-%016x.json", r.ID, hashStr(sig))
	v.Replay = filepath.Join(dir, name)
	body := map[string]interface{}{"property": r.ID, "signature": sig, "what": what, "seed": r.Seed, "tier": r.Tier, "case": c}
	if b, err := json.MarshalIndent(body, "", " "); err == nil {
		os.WriteFile(v.Replay, b, 0o644)
	}
	if v.Known {
		fmt.Printf("KNOWN-FINDING: property=%s %s [%s] replay=%s\n", r.ID, oneLine(what), sig, v.Replay)
	} else {
		fmt.Printf("VIOLATION property=%s replay=%s\n", r.ID, v.Replay)
		fmt.Printf("  signature: %s\n  what: %s\n", sig, oneLine(what))
	}
}

func oneLine(s string) string {
	s = strings.ReplaceAll(s, "\n", "\\n")
	if len(s) > 600 {
		s = s[:600] + "…"
	}
	return s
}

func hashStr(s string) uint64 {
	h := uint64(14695981039346656037)
	for i := 0; i < len(s); i++ {
		h ^= uint64(s[i])
		h *= 1099511628211
	}
	return h
}

func (r *Run) Violations() int {
	r.mu.Lock()
	defer r.mu.Unlock()
	n := 0
	for _, v := range r.viol {
		if !v.Known {
			n++
		}
	}
	return n
}

func (r *Run) distinct() int64 {
	var n int64
	for i := range r.shards {
		r.shards[i].mu.Lock()
		n += int64(len(r.shards[i].m))
		r.shards[i].mu.Unlock()
	}
	return n + atomic.LoadInt64(&r.nontriv)
}

// Finish writes the evidence file, prints the summary and returns the exit code.
func (r *Run) Finish() int {
	evals := atomic.LoadInt64(&r.evals)
	distinct := r.distinct()
	if len(r.samples) == 0 {
		r.Inconclusive("no case was written out as a sample")
	}
	if evals < r.MinEvals {
		r.Inconclusive(fmt.Sprintf("only %d events observed, fewer than the minimum %d", evals, r.MinEvals))
	}
	for _, c := range r.Required {
		if r.ClassCount(c) == 0 {
			r.Inconclusive("required event class never observed: " + c)
		}
	}
	r.mu.Lock()
	nviol, nknown := 0, 0
	var vlist []*Violation
	for _, s := range r.violSeq {
		v := r.viol[s]
		vlist = append(vlist, v)
		if v.Known {
			nknown++
		} else {
			nviol++
		}
	}
	classes := map[string]int64{}
	for k, v := range r.classes {
		classes[k] = v
	}
	samples := r.samples
	if len(samples) == 0 {
		samples = []interface{}{}
	}
	incon := append([]string(nil), r.incon...)
	r.mu.Unlock()

	verdict := "held"
	code := 0
	if nviol > 0 {
		verdict, code = "violated", 1
	} else if len(incon) > 0 {
		verdict, code = "inconclusive", 2
	}
	cov := map[string]interface{}{
		"evaluations":         evals,
		"distinct_nontrivial": distinct,
		"rule":                r.Rule,
		"samples":             samples,
		"classes":             classes,
		"exhaustive":          r.Exhaust,
		"verdict":             verdict,
		"known_findings_hit":  nknown,
	}
	if len(r.maxima) > 0 {
		cov["maxima"] = r.maxima
	}
	if len(incon) > 0 {
		cov["inconclusive_reasons"] = incon
	}
	if len(vlist) > 0 {
		cov["violations_detail"] = vlist
	}
	for k, v := range r.Extra {
		cov[k] = v
	}
	ev := map[string]interface{}{
		"property_id": r.ID,
		"tier":        r.Tier,
		"seed":        r.Seed,
		"level":       r.Level,
		"coverage":    cov,
		"assumptions": r.Assume,
		"wall_s":      time.Since(r.start).Seconds(),
		"violations":  nviol,
	}
	b, _ := json.MarshalIndent(ev, "", " ")
	os.MkdirAll(filepath.Join(r.Out, "evidence"), 0o755)
	if err := os.WriteFile(filepath.Join(r.Out, "evidence", r.ID+".json"), append(b, '\n'), 0o644); err != nil {
		fmt.Println("cannot write evidence:", err)
		if code == 0 {
			code = 2
		}
	}
	keys := make([]string, 0, len(classes))
	for k := range classes {
		keys = append(keys, k)
	}
	sort.Strings(keys)
	fmt.Printf("[%s %s seed=%d] %s: evaluations=%d distinct_nontrivial=%d violations=%d known=%d wall=%.1fs\n",
		r.ID, r.Tier, r.Seed, verdict, evals, distinct, nviol, nknown, time.Since(r.start).Seconds())
	for _, k := range keys {
		fmt.Printf("    %-48s %d\n", k, classes[k])
	}
	for _, m := range incon {
		fmt.Printf("INCONCLUSIVE property=%s reason=%s\n", r.ID, oneLine(m))
	}
	return code
}
