// Package iso runs batches of hostile inputs in child worker processes under
// an address-space limit and a watchdog, so that aborts that recover() cannot
// see (out of memory, stack overflow, deadlock, hang) are observed from outside.
//
// The parent writes the whole batch to disk before the worker starts; the
// worker records the index of the input it is about to process in a progress
// file before every call, so an abort always leaves a complete "call" event.
package iso

import (
	"bufio"
	"bytes"
	"encoding/binary"
	"encoding/json"
	"fmt"
	"io"
	"os"
	"os/exec"
	"path/filepath"
	"strings"
	"syscall"
	"time"
)

type Job struct {
	Input  []byte
	Family string // input family, for evidence and signatures
	Meta   string // optional oracle hint (e.g. expected message names)
}

// Finding is reported by the worker's in-process oracle.
type Finding struct {
	Index  int    `json:"index"`
	Sig    string `json:"sig"`
	What   string `json:"what"`
	Family string `json:"family"`
}

// Summary is what a worker reports at the end of a batch.
type Summary struct {
	Done    int                `json:"done"`
	Classes map[string]int64   `json:"classes"`
	Maxima  map[string]float64 `json:"maxima"`
	Shapes  []string           `json:"shapes,omitempty"` // new diagnostic shapes seen (coverage signal)
	Keep    []int              `json:"keep,omitempty"`   // indices of inputs that produced a new shape
	Hashes  []uint64           `json:"-"`
}

// Abort describes a worker that died while processing job Index.
type Abort struct {
	Index  int
	Kind   string // oom | stack-overflow | deadlock | watchdog | killed | exit-<n>
	Stderr string // head of the worker's stderr
}

type Outcome struct {
	Processed int // jobs whose call event happened (finished or in flight at an abort)
	Findings  []Finding
	Aborts    []Abort
	Summary   Summary // merged over restarts
	Incon     []string
}

type Options struct {
	Exe        string        // harness binary (os.Executable())
	Kind       string        // worker kind: sml | hsms
	Dir        string        // scratch directory for this pool slot
	VMemKB     int           // ulimit -v in KiB (0 = none)
	Watchdog   time.Duration // per batch
	ExtraArgs  []string
	MaxRestart int
}

func writeBatch(path string, jobs []Job) error {
	f, err := os.Create(path)
	if err != nil {
		return err
	}
	w := bufio.NewWriterSize(f, 1<<20)
	var hdr [12]byte
	for _, j := range jobs {
		binary.LittleEndian.PutUint32(hdr[0:], uint32(len(j.Input)))
		binary.LittleEndian.PutUint32(hdr[4:], uint32(len(j.Family)))
		binary.LittleEndian.PutUint32(hdr[8:], uint32(len(j.Meta)))
		w.Write(hdr[:])
		w.WriteString(j.Family)
		w.WriteString(j.Meta)
		w.Write(j.Input)
	}
	if err := w.Flush(); err != nil {
		return err
	}
	return f.Close()
}

// ReadBatch is used by the worker.
func ReadBatch(path string) ([]Job, error) {
	b, err := os.ReadFile(path)
	if err != nil {
		return nil, err
	}
	var jobs []Job
	for len(b) > 0 {
		if len(b) < 12 {
			return nil, fmt.Errorf("short batch header")
		}
		n := int(binary.LittleEndian.Uint32(b[0:]))
		fl := int(binary.LittleEndian.Uint32(b[4:]))
		ml := int(binary.LittleEndian.Uint32(b[8:]))
		b = b[12:]
		if len(b) < n+fl+ml {
			return nil, fmt.Errorf("short batch body")
		}
		j := Job{Family: string(b[:fl]), Meta: string(b[fl : fl+ml])}
		// exact-capacity copy: the input must not alias neighbouring batch bytes
		j.Input = make([]byte, n)
		copy(j.Input, b[fl+ml:fl+ml+n])
		jobs = append(jobs, j)
		b = b[fl+ml+n:]
	}
	return jobs, nil
}

func classify(stderr string, ws syscall.WaitStatus, timedOut bool) string {
	switch {
	case timedOut:
		return "watchdog"
	case strings.Contains(stderr, "stack overflow") || strings.Contains(stderr, "stack size exceeds"):
		return "stack-overflow"
	case strings.Contains(stderr, "out of memory") || strings.Contains(stderr, "cannot allocate memory") || strings.Contains(stderr, "runtime: cannot map pages") || strings.Contains(stderr, "errno=12"):
		return "oom"
	case strings.Contains(stderr, "all goroutines are asleep"):
		return "deadlock"
	case strings.Contains(stderr, "panic:"):
		return "panic-in-worker"
	case ws.Signaled():
		return "killed-" + ws.Signal().String()
	}
	return fmt.Sprintf("exit-%d", ws.ExitStatus())
}

// Run processes jobs in worker processes, restarting after an abort at the
// job following the one that was in flight.
func Run(o Options, jobs []Job) Outcome {
	var out Outcome
	out.Summary.Classes = map[string]int64{}
	out.Summary.Maxima = map[string]float64{}
	os.MkdirAll(o.Dir, 0o755)
	base := 0
	restarts := 0
	var partial *Summary
	for base < len(jobs) {
		batch := filepath.Join(o.Dir, "batch.bin")
		prog := filepath.Join(o.Dir, "progress")
		res := filepath.Join(o.Dir, "result.jsonl")
		errf := filepath.Join(o.Dir, "stderr.txt")
		for _, p := range []string{prog, res, errf} {
			os.Remove(p)
		}
		if err := writeBatch(batch, jobs[base:]); err != nil {
			out.Incon = append(out.Incon, "cannot write batch: "+err.Error())
			return out
		}
		args := append([]string{"-worker", o.Kind}, o.ExtraArgs...)
		args = append(args, batch, prog, res)
		shell := "exec \"$0\" \"$@\""
		if o.VMemKB > 0 {
			shell = fmt.Sprintf("ulimit -v %d; exec \"$0\" \"$@\"", o.VMemKB)
		}
		cmd := exec.Command("sh", append([]string{"-c", shell, o.Exe}, args...)...)
		ef, _ := os.Create(errf)
		cmd.Stdout = ef
		cmd.Stderr = ef
		cmd.Env = append(os.Environ(), "GOTRACEBACK=single")
		if err := cmd.Start(); err != nil {
			ef.Close()
			out.Incon = append(out.Incon, "cannot start worker: "+err.Error())
			return out
		}
		done := make(chan error, 1)
		go func() { done <- cmd.Wait() }()
		timedOut := false
		select {
		case <-done:
		case <-time.After(o.Watchdog):
			timedOut = true
			cmd.Process.Signal(syscall.SIGQUIT)
			select {
			case <-done:
			case <-time.After(20 * time.Second):
				cmd.Process.Kill()
				<-done
			}
		}
		ef.Close()
		// collect results
		ended := false
		if f, err := os.Open(res); err == nil {
			rd := bufio.NewReaderSize(f, 1<<20)
			for {
				line, err := rd.ReadBytes('\n')
				if len(line) > 0 {
					switch {
					case bytes.HasPrefix(line, []byte("F ")):
						var fd Finding
						if json.Unmarshal(line[2:], &fd) == nil {
							fd.Index += base
							out.Findings = append(out.Findings, fd)
						}
					case bytes.HasPrefix(line, []byte("S ")):
						var s Summary
						if json.Unmarshal(line[2:], &s) == nil {
							ended = true
							mergeSummary(&out.Summary, &s, base)
						}
					case bytes.HasPrefix(line, []byte("P ")):
						// partial summary written periodically; only used when the worker dies
						var s Summary
						if json.Unmarshal(line[2:], &s) == nil && !ended {
							// keep the latest partial; merged below if no final summary arrives
							partial = &s
						}
					}
				}
				if err == io.EOF {
					break
				}
				if err != nil {
					break
				}
			}
			f.Close()
		}
		if ended {
			out.Processed += len(jobs) - base
			return out
		}
		// aborted: which job was in flight?
		idx := -1
		if pb, err := os.ReadFile(prog); err == nil && len(pb) >= 8 {
			idx = int(binary.LittleEndian.Uint64(pb))
		}
		if partial != nil {
			mergeSummary(&out.Summary, partial, base)
			partial = nil
		}
		eb, _ := os.ReadFile(errf)
		head := string(eb)
		if len(head) > 1500 {
			head = head[:1500]
		}
		ws, _ := cmd.ProcessState.Sys().(syscall.WaitStatus)
		kind := classify(string(eb), ws, timedOut)
		if idx < 0 {
			out.Incon = append(out.Incon, "worker died before the first input: "+kind+": "+head)
			return out
		}
		out.Processed += idx + 1
		out.Aborts = append(out.Aborts, Abort{Index: base + idx, Kind: kind, Stderr: head})
		base = base + idx + 1
		restarts++
		if restarts > o.MaxRestart {
			out.Incon = append(out.Incon, fmt.Sprintf("more than %d worker aborts in one pool slot; remaining %d inputs not run", o.MaxRestart, len(jobs)-base))
			return out
		}
	}
	return out
}

func mergeSummary(dst, s *Summary, base int) {
	dst.Done += s.Done
	for k, v := range s.Classes {
		dst.Classes[k] += v
	}
	for k, v := range s.Maxima {
		if v > dst.Maxima[k] {
			dst.Maxima[k] = v
		}
	}
	dst.Shapes = append(dst.Shapes, s.Shapes...)
	for _, k := range s.Keep {
		dst.Keep = append(dst.Keep, k+base)
	}
}

// ---- worker side helpers

type Worker struct {
	Jobs    []Job
	prog    *os.File
	res     *os.File
	Classes map[string]int64
	Maxima  map[string]float64
	Shapes  []string
	Keep    []int
	done    int
}

// OpenWorker parses the trailing arguments (batch, progress, result).
func OpenWorker(args []string) (*Worker, error) {
	if len(args) < 3 {
		return nil, fmt.Errorf("worker: need batch progress result")
	}
	a := args[len(args)-3:]
	jobs, err := ReadBatch(a[0])
	if err != nil {
		return nil, err
	}
	pf, err := os.OpenFile(a[1], os.O_CREATE|os.O_RDWR, 0o644)
	if err != nil {
		return nil, err
	}
	rf, err := os.OpenFile(a[2], os.O_CREATE|os.O_WRONLY|os.O_APPEND, 0o644)
	if err != nil {
		return nil, err
	}
	return &Worker{Jobs: jobs, prog: pf, res: rf, Classes: map[string]int64{}, Maxima: map[string]float64{}}, nil
}

// Begin records that job i is about to be processed.
func (w *Worker) Begin(i int) {
	var b [8]byte
	binary.LittleEndian.PutUint64(b[:], uint64(i))
	w.prog.WriteAt(b[:], 0)
}

func (w *Worker) End(i int) {
	w.done = i + 1
	if w.done%20000 == 0 {
		w.flush("P ")
	}
}

func (w *Worker) Report(f Finding) {
	b, _ := json.Marshal(f)
	w.res.Write(append(append([]byte("F "), b...), '\n'))
}

func (w *Worker) Max(name string, v float64) {
	if v > w.Maxima[name] {
		w.Maxima[name] = v
	}
}

func (w *Worker) flush(prefix string) {
	s := Summary{Done: w.done, Classes: w.Classes, Maxima: w.Maxima, Shapes: w.Shapes, Keep: w.Keep}
	b, _ := json.Marshal(s)
	w.res.Write(append(append([]byte(prefix), b...), '\n'))
	if prefix == "P " {
		// partial summaries are cumulative; the parent keeps only the last one
		return
	}
}

func (w *Worker) Finish() {
	w.flush("S ")
	w.res.Close()
	w.prog.Close()
}
