// Package gen holds the seeded generators: item trees, values at the
// boundaries of every width, variable names, messages.
package gen

import (
	"fmt"
	"math"
	"strings"

	"verifharness/internal/ref"
	"verifharness/internal/rng"
)

// BoundaryLens are the element counts / byte lengths that straddle the 1/2/3
// length-byte forms.
var BoundaryLens = []int{0, 1, 2, 3, 7, 8, 127, 128, 254, 255, 256, 257, 65534, 65535, 65536, 65537}

type Profile struct {
	MaxDepth   int  // list nesting
	MaxKids    int  // children per list (small random part)
	MaxElems   int  // elements per scalar array (small random part)
	Budget     int  // rough payload byte budget for one tree
	Vars       bool // scalar-slot variables, list variables, ASCII variables
	Ellipsis   bool // ellipses in lists (needs Vars for interesting cases)
	Boundary   bool // draw some lengths from BoundaryLens (under Budget)
	SMLNames   bool // variable names avoid SML keywords (always true in practice)
	PlainNames bool // bracket-free base names only (C10)
	NoQuoteBS  bool // avoid '"' in ASCII (not used by default)
	PrintOnly  bool // printable ASCII only
}

type G struct {
	R      *rng.R
	P      Profile
	used   map[string]bool
	order  []string // names in the order they were handed out (deterministic choice among them)
	left   int
	ellN   int
	ellIDs []int
	// what this tree already holds, for draws that stand in a relation to an earlier part (equal or neighbouring
	// lengths, a string that is a prefix / suffix / case variant of another, a value equal to a count or an index,
	// the same sub-structure at two places, a name that extends another)
	relLens []int
	relStrs [][]byte
	relSubs []*ref.Item
	relVals map[ref.Kind][]ref.Slot
}

func New(r *rng.R, p Profile) *G {
	if p.MaxKids == 0 {
		p.MaxKids = 4
	}
	if p.MaxElems == 0 {
		p.MaxElems = 5
	}
	if p.Budget == 0 {
		p.Budget = 600
	}
	return &G{R: r, P: p}
}

var keywords = map[string]bool{"L": true, "A": true, "B": true, "BOOLEAN": true, "T": true, "F": true, "F4": true, "F8": true,
	"I1": true, "I2": true, "I4": true, "I8": true, "U1": true, "U2": true, "U4": true, "U8": true}

func IsKeyword(s string) bool { return keywords[strings.ToUpper(s)] }

var nameBases = []string{"x", "y", "v", "val", "_", "_9", "a1", "Temp", "MDLN", "SOFTREV", "x_1", "abc_DEF", "w", "h", "s1f1", "e", "l0", "b2", "i16", "u", "t1", "ff", "Z", "__",
	// identifiers that look like numbers, keywords or special float words to a careless reader
	"inf", "Inf", "nan", "NaN", "Infinity", "INFINITY", "e1", "E2", "x0", "b1", "o7", "p1", "TRUE", "False", "nil", "null", "L1", "A2", "B3", "I16", "U64", "F16", "Tt", "Ff", "W", "H", "E", "S1", "F1", "ceid", "CEID", "Ceid"}

// VarName returns a fresh, valid variable name.
func (g *G) VarName() string {
	if g.used == nil {
		g.used = map[string]bool{}
	}
	// sometimes a name that differs from an existing one only in letter case (names are case-sensitive)
	if len(g.order) > 0 && g.R.Chance(1, 12) {
		for _, n := range []string{g.order[g.R.Intn(len(g.order))]} {
			alt := strings.ToUpper(n)
			if alt == n {
				alt = strings.ToLower(n)
			}
			if alt != n && !g.used[alt] && !IsKeyword(strings.SplitN(alt, "[", 2)[0]) && !strings.Contains(alt, "[") {
				g.used[alt] = true
				g.order = append(g.order, alt)
				return alt
			}
		}
	}
	// sometimes a name that extends or shortens an existing one (x / x1 / x_ ; prefixes of one another)
	if len(g.order) > 0 && g.R.Chance(1, 14) {
		n := g.order[g.R.Intn(len(g.order))]
		if !strings.Contains(n, "[") {
			alt := n
			switch g.R.Intn(4) {
			case 0:
				alt = n + string("0123456789"[g.R.Intn(10)])
			case 1:
				alt = n + "_"
			case 2:
				alt = n + n
			default:
				if len(n) > 1 {
					alt = n[:len(n)-1]
				}
			}
			if alt != n && !g.used[alt] && !IsKeyword(alt) && ref.VarNameOK(alt) {
				g.used[alt] = true
				g.order = append(g.order, alt)
				return alt
			}
		}
	}
	for {
		n := g.R.PickStr(nameBases)
		if g.R.Chance(1, 3) {
			n += fmt.Sprint(g.R.Intn(1000))
		}
		if g.R.Chance(1, 5) {
			// any identifier: every letter, digit and the underscore at every position
			const first = "ABCDEFGHIJKLMNOPQRSTUVWXYZabcdefghijklmnopqrstuvwxyz_"
			const rest = first + "0123456789"
			b := []byte{first[g.R.Intn(len(first))]}
			for k := g.R.Intn(8); k > 0; k-- {
				b = append(b, rest[g.R.Intn(len(rest))])
			}
			n = string(b)
		} else if g.R.Chance(1, 12) {
			// a letter of a type name followed by a digit that makes no type
			n = string("FIUBALfiubal"[g.R.Intn(12)]) + string("0123456789"[g.R.Intn(10)])
		}
		if !g.P.PlainNames && g.R.Chance(1, 6) {
			if g.R.Chance(1, 4) {
				n += fmt.Sprintf("[%0*d]", 2+g.R.Intn(2), g.R.Intn(12)) // v[07] and v[7] are two names
			} else {
				n += fmt.Sprintf("[%d]", g.R.Intn(12))
			}
			if g.R.Chance(1, 3) {
				n += fmt.Sprintf("[%d]", g.R.Intn(3))
			}
		}
		if IsKeyword(strings.SplitN(n, "[", 2)[0]) {
			continue
		}
		if g.used[n] {
			n += fmt.Sprintf("_%d", len(g.used))
			if strings.Contains(n, "]_") {
				continue
			}
		}
		if g.used[n] {
			continue
		}
		g.used[n] = true
		g.order = append(g.order, n)
		return n
	}
}

// Tree draws one item tree.
func (g *G) Tree() *ref.Item {
	g.used = map[string]bool{}
	g.order = nil
	g.left = g.P.Budget
	g.ellN = 0
	g.relLens, g.relStrs, g.relSubs, g.relVals = nil, nil, nil, map[ref.Kind][]ref.Slot{}
	it := g.item(0, true)
	if g.P.Ellipsis {
		g.nameEllipses(it)
	}
	return it
}

// ScalarTree draws a tree whose root is never a list (for item-level checks).
func (g *G) length(max int, width int) int {
	n := g.length0(max, width)
	if len(g.relLens) > 0 && g.R.Chance(1, 14) {
		m := g.relLens[g.R.Intn(len(g.relLens))] + g.R.Intn(3) - 1
		if m >= 0 && m*width <= g.left && m <= 300 {
			n = m
		}
	}
	if len(g.relLens) < 64 {
		g.relLens = append(g.relLens, n)
	}
	return n
}

func (g *G) length0(max int, width int) int {
	if g.P.Boundary && g.R.Chance(1, 12) {
		n := g.R.PickInt(BoundaryLens)
		if g.R.Chance(1, 3) {
			n = n / width
		}
		if n*width <= g.left {
			return n
		}
	}
	if g.R.Chance(1, 10) {
		return 0
	}
	n := 1 + g.R.Intn(max)
	if n*width > g.left && g.left >= 0 {
		n = 1
	}
	return n
}

func (g *G) item(depth int, root bool) *ref.Item {
	listOK := depth < g.P.MaxDepth
	if listOK && (g.R.Chance(2, 5) || (root && g.R.Chance(1, 2))) {
		return g.list(depth)
	}
	return g.Scalar(ref.Kind(1 + g.R.Intn(int(ref.NKinds)-1)))
}

func (g *G) list(depth int) *ref.Item {
	it := &ref.Item{Kind: ref.L}
	n := g.length(g.P.MaxKids, 2)
	if n > 300 && depth > 0 {
		n = g.R.Intn(4)
	}
	g.left -= 2
	ellAt := -1
	if g.P.Ellipsis && n >= 1 && g.R.Chance(1, 3) {
		ellAt = 1 + g.R.Intn(n) // position among the final children, >= 1
	}
	for i := 0; i < n; i++ {
		if i == ellAt {
			it.Children = append(it.Children, &ref.Item{Var: "..."})
		}
		if g.P.Vars && g.R.Chance(1, 7) {
			it.Children = append(it.Children, &ref.Item{Var: g.VarName()})
			continue
		}
		if len(g.relSubs) > 0 && g.R.Chance(1, 12) {
			// the same sub-structure once more (as a sibling, or at another depth)
			c := g.relSubs[g.R.Intn(len(g.relSubs))]
			if sz := relSize(c); sz <= g.left {
				g.left -= sz
				it.Children = append(it.Children, relCopy(c))
				continue
			}
		}
		if n > 64 {
			// wide lists: cheap children
			it.Children = append(it.Children, g.Scalar(ref.Kind(1+g.R.Intn(int(ref.NKinds)-1))))
			continue
		}
		it.Children = append(it.Children, g.item(depth+1, false))
	}
	if ellAt == n {
		it.Children = append(it.Children, &ref.Item{Var: "..."})
	}
	g.remember(it)
	return it
}

// remember keeps small variable-free subtrees for later structural repeats.
func (g *G) remember(it *ref.Item) {
	if len(g.relSubs) < 32 && relFree(it) && relSize(it) <= 96 {
		g.relSubs = append(g.relSubs, it)
	}
}

func relFree(it *ref.Item) bool {
	if it.Var != "" || it.AVar != "" {
		return false
	}
	for _, s := range it.Slots {
		if s.Var != "" {
			return false
		}
	}
	for _, c := range it.Children {
		if !relFree(c) {
			return false
		}
	}
	return true
}

func relSize(it *ref.Item) int {
	n := 2 + len(it.Str) + len(it.Slots)*it.Kind.Width()
	for _, c := range it.Children {
		n += relSize(c)
	}
	return n
}

func relCopy(it *ref.Item) *ref.Item {
	c := *it
	c.Str = append([]byte(nil), it.Str...)
	c.Slots = append([]ref.Slot(nil), it.Slots...)
	c.Children = nil
	for _, k := range it.Children {
		c.Children = append(c.Children, relCopy(k))
	}
	return &c
}

// nameEllipses gives the ellipses of a tree distinct names.
func (g *G) nameEllipses(it *ref.Item) {
	var all []*ref.Item
	var walk func(*ref.Item)
	walk = func(x *ref.Item) {
		for _, c := range x.Children {
			if c.Var != "" {
				if ref.IsEllipsisName(c.Var) {
					all = append(all, c)
				}
				continue
			}
			if c.Kind == ref.L {
				walk(c)
			}
		}
	}
	if it.Kind == ref.L && it.Var == "" {
		walk(it)
	}
	if len(all) == 1 && g.R.Bool() {
		all[0].Var = "..."
		return
	}
	ids := make([]int, len(all))
	for i := range ids {
		ids[i] = i
	}
	if g.R.Chance(1, 4) {
		// arbitrary distinct numbers, not in order
		p := g.R.Perm(len(all) + 3)
		for i := range ids {
			ids[i] = p[i]
		}
	}
	for i, c := range all {
		c.Var = fmt.Sprintf("...[%d]", ids[i])
	}
}

// Scalar draws a non-list item of the given kind.
func (g *G) Scalar(k ref.Kind) *ref.Item {
	it := &ref.Item{Kind: k}
	w := k.Width()
	g.left -= 2
	if k == ref.A {
		if g.P.Vars && g.R.Chance(1, 5) {
			it.AVar = g.VarName()
			it.AMin, it.AMax = 0, -1
			switch g.R.Intn(5) {
			case 0:
				it.AMin = g.R.Intn(5)
				it.AMax = it.AMin
			case 1:
				it.AMin = g.R.Intn(5)
			case 2:
				it.AMax = g.R.Intn(9)
			case 3:
				it.AMin = g.R.Intn(5)
				it.AMax = it.AMin + g.R.Intn(9)
			}
			if g.R.Chance(1, 12) {
				// an upper bound at or beyond what an item can hold (a bound is a number, not a size that exists)
				it.AMax = []int{16777215, 16777216, 20000000, 1<<31 - 1, 1 << 31, 1 << 40}[g.R.Intn(6)]
			}
			return it
		}
		amax := 12
		if g.P.MaxElems > amax {
			amax = g.P.MaxElems
		}
		n := g.length(amax, 1)
		if g.left > 80 && g.R.Chance(1, 25) {
			// now and then a string far longer than the usual handful of characters (size thresholds in copies, buffers)
			lim := g.left
			if lim > 400 {
				lim = 400
			}
			n = 13 + g.R.Intn(lim)
		}
		g.left -= n
		it.Str = g.ASCII(n)
		if len(g.relStrs) > 0 && g.R.Chance(1, 10) {
			// a string that stands in a relation to an earlier one of this tree
			p := g.relStrs[g.R.Intn(len(g.relStrs))]
			var q []byte
			switch g.R.Intn(7) {
			case 0:
				q = append(q, p...) // the same
			case 1:
				q = append(q, p[:g.R.Intn(len(p)+1)]...) // a prefix
			case 2:
				q = append(q, p[g.R.Intn(len(p)+1):]...) // a suffix
			case 3:
				q = append(append(q, p...), byte(g.R.Intn(128))) // one longer
			case 4:
				q = append(append(q, p...), p...) // doubled
			case 5:
				for _, c := range p { // letter case swapped
					if c >= 'a' && c <= 'z' || c >= 'A' && c <= 'Z' {
						c ^= 0x20
					}
					q = append(q, c)
				}
			default:
				for i := len(p) - 1; i >= 0; i-- { // reversed
					q = append(q, p[i])
				}
			}
			if len(q)-n <= g.left {
				g.left -= len(q) - n
				it.Str = q
			}
		}
		if len(g.relStrs) < 32 && len(it.Str) <= 200 {
			g.relStrs = append(g.relStrs, it.Str)
		}
		g.remember(it)
		return it
	}
	n := g.length(g.P.MaxElems, w)
	if g.left > 80*w && g.R.Chance(1, 25) {
		lim := g.left / w
		if lim > 300 {
			lim = 300
		}
		n = g.P.MaxElems + 1 + g.R.Intn(lim)
	}
	g.left -= n * w
	it.Slots = make([]ref.Slot, n)
	for i := range it.Slots {
		if g.P.Vars && n <= 64 && g.R.Chance(1, 5) {
			it.Slots[i].Var = g.VarName()
			continue
		}
		it.Slots[i] = g.Value(k)
	}
	if n > 0 && g.R.Chance(1, 12) {
		g.relate(it, k)
	}
	if g.relVals == nil {
		g.relVals = map[ref.Kind][]ref.Slot{}
	}
	if prev := g.relVals[k]; len(prev) < 64 {
		for _, s := range it.Slots {
			if s.Var == "" && len(prev) < 64 {
				prev = append(prev, s)
			}
		}
		g.relVals[k] = prev
	}
	g.remember(it)
	return it
}

// relate rewrites the literal values of an array so that they stand in a relation to something else of the same
// input: the element count, the element's own index, the first element, or values an earlier item of this kind holds.
func (g *G) relate(it *ref.Item, k ref.Kind) {
	n := len(it.Slots)
	small := func(v int) (ref.Slot, bool) {
		switch {
		case k == ref.BOOLEAN:
			return ref.Slot{Uint: uint64(v & 1)}, true
		case k == ref.B || k.IsUint():
			if uint64(v) <= UintMax(k.Width()) {
				return ref.Slot{Uint: uint64(v)}, true
			}
		case k.IsInt():
			if _, hi := IntBounds(k.Width()); int64(v) <= hi {
				return ref.Slot{Int: int64(v)}, true
			}
		}
		return ref.Slot{}, false
	}
	mode := g.R.Intn(5)
	var first *ref.Slot
	for i := range it.Slots {
		s := &it.Slots[i]
		if s.Var != "" {
			continue
		}
		switch mode {
		case 0: // every value is the element count
			if v, ok := small(n); ok {
				*s = v
			}
		case 1: // every value is its own index
			if v, ok := small(i); ok {
				*s = v
			}
		case 2: // every value equals the first
			if first == nil {
				first = s
			} else {
				*s = *first
			}
		case 3: // the values of an earlier item of this kind, in order
			if prev := g.relVals[k]; i < len(prev) {
				*s = prev[i]
			}
		default: // one value is the count of what the tree holds so far
			if i == 0 {
				if v, ok := small(len(g.relLens)); ok {
					*s = v
				}
			}
		}
	}
}

const hostileASCII = "\"\\ /\t\n\r\x00\x7f'<>.[]"

// ASCII draws n characters 0..127, hostile ones over-represented.
var slashStrings = []string{"//", "a//b", "http://host/path", "x//", "// not a comment", "/ /", "///", "a/b//c//"}

func (g *G) ASCII(n int) []byte {
	if n >= 2 && !g.P.PrintOnly && g.R.Chance(1, 25) {
		// strings holding the comment delimiter
		s := slashStrings[g.R.Intn(len(slashStrings))]
		b := make([]byte, n)
		for i := range b {
			b[i] = s[i%len(s)]
		}
		return b
	}
	b := make([]byte, n)
	mode := g.R.Intn(6)
	for i := range b {
		switch {
		case g.P.PrintOnly:
			b[i] = byte(32 + g.R.Intn(95))
		case mode == 0:
			b[i] = byte(g.R.Intn(128))
		case mode == 1:
			b[i] = hostileASCII[g.R.Intn(len(hostileASCII))]
		case mode == 2:
			b[i] = byte(g.R.Intn(32))
		default:
			if g.R.Chance(1, 12) {
				b[i] = byte(g.R.Intn(128))
			} else {
				b[i] = byte(32 + g.R.Intn(95))
			}
		}
	}
	return b
}

// IntBounds returns min and max of a signed width.
func IntBounds(w int) (int64, int64) {
	return -1 << uint(8*w-1), 1<<uint(8*w-1) - 1
}

func UintMax(w int) uint64 {
	if w == 8 {
		return math.MaxUint64
	}
	return 1<<uint(8*w) - 1
}

// Value draws one in-domain value of a scalar kind, boundary-driven.
func (g *G) Value(k ref.Kind) ref.Slot {
	r := g.R
	switch {
	case k == ref.B:
		if r.Chance(1, 3) {
			return ref.Slot{Uint: uint64(r.PickInt([]int{0, 1, 127, 128, 254, 255}))}
		}
		return ref.Slot{Uint: uint64(r.Intn(256))}
	case k == ref.BOOLEAN:
		return ref.Slot{Uint: uint64(r.Intn(2))}
	case k.IsInt():
		w := k.Width()
		lo, hi := IntBounds(w)
		switch r.Intn(8) {
		case 0:
			return ref.Slot{Int: lo + int64(r.Intn(2))}
		case 1:
			return ref.Slot{Int: hi - int64(r.Intn(2))}
		case 2:
			return ref.Slot{Int: int64(r.Intn(3)) - 1}
		case 3:
			b := uint(r.Intn(8*w - 1))
			v := int64(1)<<b + int64(r.Intn(3)) - 1
			if r.Bool() {
				v = -v
			}
			if v < lo || v > hi {
				v = 0
			}
			return ref.Slot{Int: v}
		case 4:
			// alternating bit patterns
			p := uint64(0xAAAAAAAAAAAAAAAA)
			if r.Bool() {
				p = 0x5555555555555555
			}
			sh := uint(64 - 8*w)
			return ref.Slot{Int: int64(p<<sh) >> sh}
		default:
			sh := uint(64 - 8*w)
			return ref.Slot{Int: int64(r.U64()<<sh) >> sh}
		}
	case k.IsUint():
		w := k.Width()
		hi := UintMax(w)
		switch r.Intn(7) {
		case 0:
			return ref.Slot{Uint: uint64(r.Intn(2))}
		case 1:
			return ref.Slot{Uint: hi - uint64(r.Intn(2))}
		case 2:
			b := uint(r.Intn(8 * w))
			v := uint64(1)<<b + uint64(r.Intn(3)) - 1
			return ref.Slot{Uint: v & hi}
		case 3:
			return ref.Slot{Uint: (uint64(1)<<uint(8*w-1) - uint64(r.Intn(2))) & hi}
		default:
			return ref.Slot{Uint: r.U64() & hi}
		}
	case k == ref.F4:
		return ref.Slot{Uint: uint64(F4Bits(r))}
	case k == ref.F8:
		return ref.Slot{Uint: F8Bits(r)}
	}
	panic("Value: bad kind")
}

var f4Special = []uint32{0, 0x80000000, 1, 0x80000001, 0x007FFFFF, 0x00800000, 0x7F7FFFFF, 0xFF7FFFFF, 0x3F800000, 0xBF800000,
	0x3F000000, 0x41200000, 0x4B800000, 0x4B7FFFFF, 0x3DCCCCCD, 0x7F000000, 0x00400000, 0x501502F9, 0x49742400, 0x38D1B717}

// F4Bits draws a finite float32 bit pattern.
func F4Bits(r *rng.R) uint32 {
	if r.Chance(1, 3) {
		return f4Special[r.Intn(len(f4Special))]
	}
	for {
		b := uint32(r.U64())
		if r.Chance(1, 4) {
			// small integers and short decimals
			return math.Float32bits(float32(r.Intn(20001)-10000) / float32([]int{1, 2, 4, 10, 100, 1000}[r.Intn(6)]))
		}
		if b>>23&0xFF != 0xFF {
			return b
		}
	}
}

var f8Special = []uint64{0, 1 << 63, 1, 0x000FFFFFFFFFFFFF, 0x0010000000000000, 0x7FEFFFFFFFFFFFFF, 0xFFEFFFFFFFFFFFFF, 0x3FF0000000000000,
	0x3FB999999999999A, 0x4340000000000000, 0x433FFFFFFFFFFFFF, 0x47EFFFFFE0000000, 0x36A0000000000000, 0x3810000000000000,
	0x444B1AE4D6E2EF50, 0x412E848000000000, 0x3F1A36E2EB1C432D, 0x4415AF1D78B58C40}

// F8Bits draws a finite float64 bit pattern.
func F8Bits(r *rng.R) uint64 {
	if r.Chance(1, 3) {
		return f8Special[r.Intn(len(f8Special))]
	}
	for {
		b := r.U64()
		if r.Chance(1, 4) {
			return math.Float64bits(float64(r.Intn(2000001)-1000000) / float64([]int{1, 2, 4, 10, 100, 1000, 100000}[r.Intn(7)]))
		}
		if b>>52&0x7FF != 0x7FF {
			return b
		}
	}
}

// Header fields.

var SessionBoundary = []int{0, 1, 255, 256, 32767, 32768, 65534, 65535}
var Directions = []string{"H->E", "H<-E", "H<->E"}

// Msg draws a message around an item. complete=true gives W in {0,1} and a session id.
func (g *G) Msg(item *ref.Item, complete bool) *ref.Msg {
	r := g.R
	m := &ref.Msg{Stream: r.Intn(128), Function: r.Intn(256), Dir: r.PickStr(Directions), Item: item, Session: -1}
	if r.Chance(1, 6) {
		m.Stream = r.PickInt([]int{0, 1, 126, 127, 64})
	}
	if r.Chance(1, 6) {
		m.Function = r.PickInt([]int{0, 1, 2, 254, 255, 127, 128})
	}
	if complete {
		m.W = 0
		if m.Function%2 == 1 && r.Bool() {
			m.W = 1
		}
	} else {
		m.W = r.Intn(3)
		if m.W == 1 && m.Function%2 == 0 {
			m.W = 2
		}
	}
	if complete || r.Bool() {
		if r.Chance(1, 3) {
			m.Session = r.PickInt(SessionBoundary)
		} else {
			m.Session = r.Intn(65536)
		}
		switch r.Intn(4) {
		case 0:
			m.Sys = [4]byte{0, 0, 0, 0}
		case 1:
			m.Sys = [4]byte{0xFF, 0xFF, 0xFF, 0xFF}
		default:
			copy(m.Sys[:], r.Bytes(4))
		}
	}
	if r.Chance(2, 3) {
		m.Name = g.MsgName()
	}
	return m
}

var nameAlphabet = []rune("abcXYZ019_-?!:;,'\"\\<>[]().=+*&^%$#@~`|{}/éß漢字Ω😀")

// MsgName draws a name the SML header lexer reads as one name: no white
// space, no "//", does not start with something the header lexer claims
// (stream/function code, W, [W], direction, '.', '<').
func (g *G) MsgName() string {
	for {
		n := 1 + g.R.Intn(10)
		var sb strings.Builder
		for i := 0; i < n; i++ {
			sb.WriteRune(nameAlphabet[g.R.Intn(len(nameAlphabet))])
		}
		s := sb.String()
		if NameOK(s) {
			return s
		}
	}
}

// NameOK: hand-written recogniser for names that the header lexer must read as one name.
func NameOK(s string) bool {
	if s == "" || strings.Contains(s, "//") {
		return false
	}
	for _, r := range s {
		if isSpaceRune(r) {
			return false
		}
	}
	c := s[0]
	if c == '.' || c == '<' || c == 'W' || c == 'w' {
		return false
	}
	if c == '[' && len(s) >= 3 && (s[1] == 'W' || s[1] == 'w') && s[2] == ']' {
		return false
	}
	if c == 'H' || c == 'h' {
		rest := strings.ToUpper(s[1:])
		if strings.HasPrefix(rest, "->E") || strings.HasPrefix(rest, "<-E") || strings.HasPrefix(rest, "<->E") {
			return false
		}
	}
	if c == 'S' || c == 's' {
		i := 1
		for i < len(s) && s[i] >= '0' && s[i] <= '9' {
			i++
		}
		if i > 1 && i < len(s) && (s[i] == 'F' || s[i] == 'f') {
			j := i + 1
			if j < len(s) && s[j] >= '0' && s[j] <= '9' {
				return false
			}
		}
	}
	return true
}

// White_Space code points of Unicode, written out.
func isSpaceRune(r rune) bool {
	switch r {
	case 9, 10, 11, 12, 13, 32, 0x85, 0xA0, 0x1680, 0x2028, 0x2029, 0x202F, 0x205F, 0x3000:
		return true
	}
	return r >= 0x2000 && r <= 0x200A
}
