// Package rng is a tiny deterministic PRNG (splitmix64) so that every case
// list is a pure function of (property, tier, seed).
package rng

type R struct{ s uint64 }

func New(seed uint64) *R { return &R{s: seed*0x9E3779B97F4A7C15 + 0x1234567} }

// Derive returns an independent stream for a sub-task.
func (r *R) Derive(k uint64) *R { return New(r.U64() ^ (k * 0xBF58476D1CE4E5B9)) }

func (r *R) U64() uint64 {
	r.s += 0x9E3779B97F4A7C15
	z := r.s
	z = (z ^ (z >> 30)) * 0xBF58476D1CE4E5B9
	z = (z ^ (z >> 27)) * 0x94D049BB133111EB
	return z ^ (z >> 31)
}

// Intn returns a value in [0,n). n<=0 gives 0.
func (r *R) Intn(n int) int {
	if n <= 0 {
		return 0
	}
	return int(r.U64() % uint64(n))
}

// Range returns a value in [lo,hi].
func (r *R) Range(lo, hi int) int { return lo + r.Intn(hi-lo+1) }

func (r *R) Bool() bool { return r.U64()&1 == 1 }

// Chance is true with probability num/den.
func (r *R) Chance(num, den int) bool { return r.Intn(den) < num }

func (r *R) Bytes(n int) []byte {
	b := make([]byte, n)
	for i := 0; i < n; i += 8 {
		v := r.U64()
		for j := 0; j < 8 && i+j < n; j++ {
			b[i+j] = byte(v >> (8 * j))
		}
	}
	return b
}

func (r *R) PickInt(xs []int) int       { return xs[r.Intn(len(xs))] }
func (r *R) PickStr(xs []string) string { return xs[r.Intn(len(xs))] }

func (r *R) Perm(n int) []int {
	p := make([]int, n)
	for i := range p {
		p[i] = i
	}
	for i := n - 1; i > 0; i-- {
		j := r.Intn(i + 1)
		p[i], p[j] = p[j], p[i]
	}
	return p
}

// Hash64 is FNV-1a, used for distinct-case counting.
func Hash64(b []byte) uint64 {
	h := uint64(14695981039346656037)
	for _, c := range b {
		h ^= uint64(c)
		h *= 1099511628211
	}
	return h
}

func HashStr(s string) uint64 {
	h := uint64(14695981039346656037)
	for i := 0; i < len(s); i++ {
		h ^= uint64(s[i])
		h *= 1099511628211
	}
	return h
}

func Mix(a, b uint64) uint64 {
	z := a ^ (b + 0x9E3779B97F4A7C15 + (a << 6) + (a >> 2))
	z = (z ^ (z >> 30)) * 0xBF58476D1CE4E5B9
	return z ^ (z >> 31)
}
